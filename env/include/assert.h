/* Verification model of <assert.h> (found first through -I/verif/env/include).
 * glibc's assert() calls the noreturn __assert_fail(); goto-cc turns assert(e) into an obligation but lets the
 * path continue.  Model the real semantics: the obligation "assertion e" (classified L or P per group), and the
 * execution continues only when e holds (abort() otherwise). */
#undef assert
#ifdef NDEBUG
#define assert(e) ((void)0)
#else
#define assert(e) (__CPROVER_assert((e), "assertion " #e), __CPROVER_assume((e)))
#endif
#ifndef static_assert
#define static_assert _Static_assert
#endif
