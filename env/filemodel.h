/* Environment model: one output descriptor.  POSIX semantics assumed: dup returns a new descriptor for the same
 * file, lseek(SEEK_CUR) reports the current offset (bytes before it are foreign and never touched), write appends,
 * close releases a descriptor.
 * The file content is observed through VG_NWATCH *watch offsets* chosen nondeterministically up front (havocked once,
 * never assigned): the byte that lands on each watched offset is recorded.  A check then assumes the watch offsets it
 * needs (e.g. "the 8 bytes of trailer field i") -- every choice is explored, and no byte array has to be modelled. */
#ifndef VG_FILEMODEL_H
#define VG_FILEMODEL_H
#ifndef VG_NWATCH
#define VG_NWATCH 8
#endif
static size_t vg_watch[VG_NWATCH];     /* offsets relative to the writer's start offset; set once by vg_file_init() */
static uint8_t vg_wbyte[VG_NWATCH];    /* byte written at that offset */
static uint8_t vg_wcount[VG_NWATCH];   /* how often that offset was written (must end up 1) */
static size_t vg_fpos;                 /* number of bytes written since the writer was created */
static off_t vg_start;                 /* offset of the descriptor when the writer was created (foreign prefix) */
static int vg_fds_open;                /* descriptors opened minus closed */
static int vg_wfd = -1;                /* descriptor the writer must use */
static unsigned vg_write_calls;
static size_t vg_call_start[4];        /* file position at the start of the last four write calls (newest last) */
int vg_errno;
int *__errno_location(void) { return &vg_errno; }

static void vg_file_init(void) { for (int j = 0; j < VG_NWATCH; j++) vg_watch[j] = nondet_size(); }
int dup(int fd) { vg_fds_open++; vg_wfd = fd + 100; return vg_wfd; }
int close(int fd) { vg_fds_open--; return 0; }
off_t lseek(int fd, off_t off, int whence)
{
	__CPROVER_assert(whence == SEEK_CUR && off == 0, "A: writer only asks for the current offset");
	return vg_start;
}
ssize_t write(int fd, const void *buf, size_t count)
{
	__CPROVER_assert(fd == vg_wfd, "P:C09,C20: every write goes to the writer's own descriptor");
	vg_write_calls++;
	vg_call_start[0] = vg_call_start[1]; vg_call_start[1] = vg_call_start[2]; vg_call_start[2] = vg_call_start[3]; vg_call_start[3] = vg_fpos;
	/* concrete-index reads of the caller's buffer only (a symbolic index into a 64 KiB builder buffer is flattened
	 * into a 65536-way multiplexer by the back end) */
	for (size_t i = 0; i < count; i++)
		for (int j = 0; j < VG_NWATCH; j++)
			if (vg_watch[j] == vg_fpos + i) {
				vg_wbyte[j] = ((const uint8_t *)buf)[i];
				if (vg_wcount[j] < 255) vg_wcount[j]++;
			}
	vg_fpos += count;
	return (ssize_t)count;
}
#endif
