/* Shared capture contracts for the three "pump" loops (iterator -> writer): mtbl_source_write, mtbl_sorter_write and
 * src/mtbl_merge.c merge().  Entries are an arbitrary stream: every successful next hands out fresh arbitrary (key, value);
 * the writer's add contract REQUIRES (call-site obligation) that it is given exactly the entry the preceding next handed out,
 * and that every entry handed out is offered to the writer before the next one is fetched. */
#include "spec/ghost.h"
struct { unsigned long nexts, yields; const uint8_t *k, *v; size_t lk, lv; mtbl_res last; struct mtbl_iter *it; unsigned long adds_at_last_yield; } vg_nx;
struct { unsigned long calls; struct mtbl_writer *w; mtbl_res last; } vg_ad;
struct { unsigned calls; struct mtbl_iter *it; } vg_de;
struct mtbl_iter *vg_the_iter; struct mtbl_writer *vg_the_writer;

mtbl_res mtbl_iter_next__cap(struct mtbl_iter *it, const uint8_t **k, size_t *lk, const uint8_t **v, size_t *lv)
__CPROVER_requires(it == vg_the_iter && vg_de.calls == 0)
/* the previous entry, if any, has been offered to the writer */
__CPROVER_requires(vg_ad.calls == vg_nx.yields)
__CPROVER_assigns(__CPROVER_object_whole(&vg_nx), *k, *lk, *v, *lv)
__CPROVER_ensures(vg_nx.nexts == __CPROVER_old(vg_nx.nexts) + 1 && __CPROVER_return_value == vg_nx.last && vg_nx.it == it && vg_nx.adds_at_last_yield == vg_ad.calls)
/* environment assumption: fewer than 2^62 calls in total (the 64-bit ghost counters do not wrap) */
__CPROVER_ensures(__CPROVER_old(vg_nx.nexts) < ((unsigned long)1 << 62))
__CPROVER_ensures(vg_nx.last == mtbl_res_success ==> (vg_nx.yields == __CPROVER_old(vg_nx.yields) + 1 && *k == vg_nx.k && *lk == vg_nx.lk && *v == vg_nx.v && *lv == vg_nx.lv))
__CPROVER_ensures(vg_nx.last != mtbl_res_success ==> vg_nx.yields == __CPROVER_old(vg_nx.yields))
;
mtbl_res mtbl_writer_add__cap(struct mtbl_writer *w, const uint8_t *k, size_t lk, const uint8_t *v, size_t lv)
/* exactly the entry the preceding next handed out, once */
__CPROVER_requires(w == vg_the_writer && vg_nx.last == mtbl_res_success && vg_ad.calls + 1 == vg_nx.yields && k == vg_nx.k && lk == vg_nx.lk && v == vg_nx.v && lv == vg_nx.lv)
__CPROVER_assigns(__CPROVER_object_whole(&vg_ad))
__CPROVER_ensures(vg_ad.calls == __CPROVER_old(vg_ad.calls) + 1 && __CPROVER_return_value == vg_ad.last && vg_ad.w == w)
;
void mtbl_iter_destroy__cap(struct mtbl_iter **it)
__CPROVER_requires(vg_de.calls == 0 && *it == vg_the_iter)
__CPROVER_assigns(__CPROVER_object_whole(&vg_de), *it)
__CPROVER_ensures(vg_de.calls == 1 && vg_de.it == __CPROVER_old(*it) && *it == NULL)
;
#define VG_PUMP_INIT (vg_nx.nexts == 0 && vg_nx.yields == 0 && vg_ad.calls == 0 && vg_de.calls == 0 && vg_the_iter != NULL)
/* loop invariant shared by the three loops (entered from the loop-contract files) */
#define VG_PUMP_INV "vg_de.calls == 0 && vg_ad.calls == vg_nx.yields && (vg_ad.calls == 0 || vg_ad.last == mtbl_res_success) && vg_nx.yields <= vg_nx.nexts"
