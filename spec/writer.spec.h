/* Contracts for mtbl/writer.c (declared after the real file is included; no edit in /repo). */
#include "spec/ghost.h"

/* ---------- errno: CBMC cannot put errno in an assigns clause; route it through a ghost ---------- */
int vg_errno;
int *__errno_location(void) { return &vg_errno; }

/* ---------- write(2): ghost byte stream ---------- */
const uint8_t *vg_w_base;   /* buffer of the _write_all call in progress */
size_t vg_w_total;          /* its size */
size_t vg_w_done;           /* bytes of it already accepted by write() */
int vg_w_fd;

/* POSIX write: returns -1 with any errno, or any count 0..count; bytes accepted advance the stream.
 * requires = capture: every call resumes exactly where the previous one stopped. */
ssize_t write__spec(int fd, const void *buf, size_t count)
__CPROVER_requires(fd == vg_w_fd)
__CPROVER_requires((const uint8_t *)buf == vg_w_base + vg_w_done)
__CPROVER_requires(count == vg_w_total - vg_w_done)
__CPROVER_assigns(vg_w_done, vg_errno)
__CPROVER_ensures(__CPROVER_return_value >= -1 && __CPROVER_return_value <= (ssize_t)count)
__CPROVER_ensures(__CPROVER_return_value > 0 ==> vg_w_done == __CPROVER_old(vg_w_done) + (size_t)__CPROVER_return_value)
__CPROVER_ensures(__CPROVER_return_value <= 0 ==> vg_w_done == __CPROVER_old(vg_w_done))
;

/* _write_all: on return the whole buffer has been accepted, in order, each byte once. */
void _write_all__spec(int fd, const uint8_t *buf, size_t size)
__CPROVER_requires(size > 0 && size <= (SIZE_MAX >> 1))
__CPROVER_requires(__CPROVER_is_fresh(buf, size))
__CPROVER_requires(vg_w_base == buf && vg_w_total == size && vg_w_done == 0 && vg_w_fd == fd)
__CPROVER_assigns(vg_w_done, vg_errno)
__CPROVER_ensures(vg_w_done == vg_w_total)
;

int fprintf__spec(FILE *f, const char *fmt, ...) __CPROVER_requires(1) __CPROVER_ensures(1) __CPROVER_assigns() ;
char *strerror__spec(int e) __CPROVER_requires(1) __CPROVER_ensures(1) __CPROVER_assigns() ;

/* ================= specification functions (pure) ================= */
static unsigned vg_spec_len64(uint64_t v)
{
	unsigned n = 1;
	if (v >= (1ULL << 7)) n = 2;
	if (v >= (1ULL << 14)) n = 3;
	if (v >= (1ULL << 21)) n = 4;
	if (v >= (1ULL << 28)) n = 5;
	if (v >= (1ULL << 35)) n = 6;
	if (v >= (1ULL << 42)) n = 7;
	if (v >= (1ULL << 49)) n = 8;
	if (v >= (1ULL << 56)) n = 9;
	if (v >= (1ULL << 63)) n = 10;
	return n;
}
static uint8_t vg_spec_byte(uint64_t v, unsigned n, unsigned k)
{
	return (uint8_t)(((v >> (7 * k)) & 0x7f) | (k + 1 < n ? 0x80 : 0));
}

/* ================= _write_all as a callee: capture contract ================= */
size_t vg_k;                 /* universal index: havocked once, never assigned */
size_t vg_fpos;              /* bytes handed to the descriptor since the writer was created (file model) */
unsigned vg_wa_calls;        /* _write_all calls so far in the function under check */
int vg_wa_fd;                /* descriptor every call must use */
/* what the calls of one block write must be: varint(vg_blk_len), the 4 crc bytes at vg_blk_crc, vg_blk_len bytes at vg_blk_data;
 * call 3 (trailer, only in finish): 512 bytes */
uint64_t vg_blk_len; const uint8_t *vg_blk_crc; const uint8_t *vg_blk_data;
uint8_t vg_trailer_k;        /* byte vg_k of the trailer buffer as handed to _write_all (call 3) */
uint8_t vg_trailer_magic[4];

void _write_all__cap(int fd, const uint8_t *buf, size_t size)
__CPROVER_requires(fd == vg_wa_fd)
__CPROVER_requires(size > 0)
__CPROVER_requires(vg_wa_calls <= 3)
__CPROVER_requires(vg_wa_calls == 0 ==> (size == vg_spec_len64(vg_blk_len) &&
                   (vg_k < size ==> buf[vg_k] == vg_spec_byte(vg_blk_len, vg_spec_len64(vg_blk_len), (unsigned)vg_k))))
__CPROVER_requires(vg_wa_calls == 1 ==> (buf == vg_blk_crc && size == 4))
__CPROVER_requires(vg_wa_calls == 2 ==> (buf == vg_blk_data && size == vg_blk_len))
__CPROVER_requires(vg_wa_calls == 3 ==> size == MTBL_METADATA_SIZE)
__CPROVER_assigns(vg_wa_calls, vg_fpos, vg_trailer_k, __CPROVER_object_whole(vg_trailer_magic))
__CPROVER_ensures(vg_wa_calls == __CPROVER_old(vg_wa_calls) + 1)
__CPROVER_ensures(vg_fpos == __CPROVER_old(vg_fpos) + size)
__CPROVER_ensures((__CPROVER_old(vg_wa_calls) == 3 && vg_k < MTBL_METADATA_SIZE) ==> vg_trailer_k == buf[vg_k])
__CPROVER_ensures(__CPROVER_old(vg_wa_calls) == 3 ==> (vg_trailer_magic[0] == buf[508] && vg_trailer_magic[1] == buf[509] && vg_trailer_magic[2] == buf[510] && vg_trailer_magic[3] == buf[511]))
;

/* _mtbl_writer_write_block: three writes, in order: varint(len), crc as stored, payload; returns the bytes occupied */
size_t _mtbl_writer_write_block__spec(int fd, struct data_block *b)
__CPROVER_requires(__CPROVER_is_fresh(b, sizeof(*b)))
__CPROVER_requires(b->len_data >= 1 && b->len_data <= ((size_t)1 << 40))
__CPROVER_requires(__CPROVER_is_fresh(b->data, b->len_data))
__CPROVER_requires(vg_wa_calls == 0 && vg_wa_fd == fd && vg_fpos <= ((size_t)1 << 60))
__CPROVER_requires(vg_blk_len == b->len_data && vg_blk_crc == (const uint8_t *)&b->crc && vg_blk_data == b->data)
__CPROVER_assigns(vg_wa_calls, vg_fpos, vg_trailer_k, __CPROVER_object_whole(vg_trailer_magic))
__CPROVER_ensures(vg_wa_calls == 3)
__CPROVER_ensures(__CPROVER_return_value == vg_spec_len64(b->len_data) + 4 + b->len_data)
__CPROVER_ensures(vg_fpos == __CPROVER_old(vg_fpos) + __CPROVER_return_value)
;
