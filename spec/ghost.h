/* Shared ghost declarations and assertion macros for all verification TUs. */
#ifndef VG_GHOST_H
#define VG_GHOST_H
#include <stdint.h>
#include <stddef.h>
#include <stdbool.h>

uint8_t  nondet_u8(void);
uint16_t nondet_u16(void);
uint32_t nondet_u32(void);
uint64_t nondet_u64(void);
int      nondet_int(void);
long     nondet_long(void);
size_t   nondet_size(void);
_Bool    nondet_bool(void);
void    *nondet_ptr(void);

/* Property-grade obligation: description "P:<props>: <sentence>" is parsed by the driver. */
#define VG_P(props, cond, text) __CPROVER_assert((cond), "P:" props ": " text)
/* Auxiliary obligation (not property-grade). */
#define VG_A(cond, text) __CPROVER_assert((cond), "A: " text)
/* Reachability guard: MUST fail; if CBMC proves it, the harness is vacuous -> exit 2. */
#define VG_REACH(text) __CPROVER_assert(0, "R: " text)
/* Loud stop the property allows (modelled explicitly by env stubs). */
#define VG_L(cond, text) __CPROVER_assert((cond), "L: " text)

#endif
