/* Native replay for C15: compress/decompress round trip of one buffer, in a child process.
 * usage: c15_rt <alg 1..5> <level|d> <size> <pattern: z|c|r> [seed]
 * exit 0: compress reported failure, or decompress(compress(x)) == x.  exit 1: abort, crash or mismatch. */
#include <stdio.h>
#include <stdlib.h>
#include <string.h>
#include <signal.h>
#include <sys/wait.h>
#include <unistd.h>
#include <mtbl.h>

int main(int argc, char **argv)
{
	if (argc < 5) return 2;
	int alg = atoi(argv[1]); size_t n = strtoull(argv[3], 0, 0); char pat = argv[4][0];
	unsigned seed = argc > 5 ? atoi(argv[5]) : 1;
	pid_t pid = fork();
	if (pid == 0) {
		uint8_t *in = malloc(n + 1);
		for (size_t i = 0; i < n; i++) { seed = seed * 1103515245 + 12345; in[i] = pat == 'z' ? 0 : pat == 'c' ? (uint8_t)i : (uint8_t)(seed >> 16); }
		uint8_t *c = NULL, *d = NULL; size_t lc = 0, ld = 0; mtbl_res res;
		if (argv[2][0] == 'd') res = mtbl_compress(alg, in, n, &c, &lc);
		else res = mtbl_compress_level(alg, atoi(argv[2]), in, n, &c, &lc);
		if (res != mtbl_res_success) _exit(0);
		res = mtbl_decompress(alg, c, lc, &d, &ld);
		if (res != mtbl_res_success) _exit(3);
		if (ld != n || memcmp(d, in, n)) _exit(4);
		_exit(0);
	}
	int st = 0; waitpid(pid, &st, 0);
	if (WIFSIGNALED(st)) { printf("FAIL: died with signal %d (%s)\n", WTERMSIG(st), strsignal(WTERMSIG(st))); return 1; }
	if (WEXITSTATUS(st) == 3) { printf("FAIL: compress succeeded but decompress reports failure\n"); return 1; }
	if (WEXITSTATUS(st) == 4) { printf("FAIL: round trip differs from the input\n"); return 1; }
	printf("PASS\n"); return 0;
}
