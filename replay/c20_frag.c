/* Native replay for C20: the library is compiled with -Dwrite=vg_shim_write; every write(2) of the writer gets an outcome
 * from a plan (full, short by n, EINTR).  The file produced under each plan must equal the unfragmented one.
 * usage: c20_frag <tmpfile> [seed]   -- sweeps every single fault, every EINTR-then-short pair, and seeded random plans.
 * exit 0 identical for all plans, 1 a plan changes the file. */
#include <stdio.h>
#include <stdlib.h>
#include <string.h>
#include <errno.h>
#include <unistd.h>
#include <sys/syscall.h>
#include <mtbl.h>
static int plan_kind[64]; static int plan_at[64]; static int nplan; static int callno; static unsigned rnd;
ssize_t vg_shim_write(int fd, const void *buf, size_t n)
{
	int c = callno++;
	for (int i = 0; i < nplan; i++) if (plan_at[i] == c) {
		if (plan_kind[i] == 0) { errno = EINTR; return -1; }
		if (plan_kind[i] == 1 && n > 1) n = 1;
		if (plan_kind[i] == 2 && n > 1) n = n / 2;
	}
	return syscall(SYS_write, fd, buf, n);
}
static size_t make(const char *fn, unsigned char **out)
{
	unlink(fn); callno = 0;
	struct mtbl_writer_options *o = mtbl_writer_options_init();
	mtbl_writer_options_set_compression(o, MTBL_COMPRESSION_NONE); mtbl_writer_options_set_block_size(o, 1024);
	struct mtbl_writer *w = mtbl_writer_init(fn, o);
	char k[16], v[300]; memset(v, 'v', sizeof v);
	for (int i = 0; i < 12; i++) { snprintf(k, sizeof k, "key%04d", i); (void)mtbl_writer_add(w, (uint8_t *)k, strlen(k), (uint8_t *)v, 200 + i); }
	mtbl_writer_destroy(&w); mtbl_writer_options_destroy(&o);
	FILE *f = fopen(fn, "rb"); fseek(f, 0, SEEK_END); long n = ftell(f); rewind(f); *out = malloc(n + 1); if (fread(*out, 1, n, f) != (size_t)n) n = 0; fclose(f);
	return (size_t)n;
}
int main(int argc, char **argv)
{
	if (argc < 2) return 2;
	rnd = argc > 2 ? atoi(argv[2]) : 1;
	unsigned char *ref, *got; nplan = 0; errno = 0;
	size_t nref = make(argv[1], &ref); int ncalls = callno; int bad = 0;
	for (int mode = 0; mode < 3 && !bad; mode++)
		for (int i = 0; i < ncalls && !bad; i++) for (int j = (mode == 2 ? i + 1 : ncalls); j <= ncalls && !bad; j++) {
			nplan = 0; errno = 0;
			if (mode < 2) { plan_kind[0] = mode; plan_at[0] = i; nplan = 1; }
			else { if (j >= ncalls) break; plan_kind[0] = 0; plan_at[0] = i; plan_kind[1] = 1; plan_at[1] = j + 1; nplan = 2; }   /* EINTR at i, short write later (j+1 accounts for the retry) */
			size_t n = make(argv[1], &got);
			if (n != nref || memcmp(ref, got, n)) { printf("plan mode=%d i=%d j=%d: file differs (len %zu vs %zu)\n", mode, i, j, n, nref); bad = 1; }
			free(got);
		}
	for (int t = 0; t < 200 && !bad; t++) {
		nplan = 3 + rnd % 5; errno = 0;
		for (int i = 0; i < nplan; i++) { rnd = rnd * 1103515245 + 12345; plan_kind[i] = (rnd >> 16) % 3; rnd = rnd * 1103515245 + 12345; plan_at[i] = (rnd >> 16) % (ncalls + 6); }
		size_t n = make(argv[1], &got);
		if (n != nref || memcmp(ref, got, n)) { printf("random plan %d: file differs (len %zu vs %zu)\n", t, n, nref); bad = 1; }
		free(got);
	}
	unlink(argv[1]);
	printf(bad ? "FAIL\n" : "PASS\n");
	return bad;
}
