/* Native replay for C16: check the codecs on given values against an independent reference.
 * usage: c16_codec <v64 hex> <offset 0..7> [byte hex ...]   exit 0 ok, 1 property violated */
#include <stdio.h>
#include <stdlib.h>
#include <string.h>
#include <mtbl.h>
static unsigned ref_enc(uint8_t *p, uint64_t v) { unsigned n = 0; do { uint8_t b = v & 0x7f; v >>= 7; if (v) b |= 0x80; p[n++] = b; } while (v); return n; }
int main(int argc, char **argv)
{
	if (argc < 3) return 2;
	uint64_t v = strtoull(argv[1], 0, 16); unsigned off = atoi(argv[2]) & 7; int bad = 0;
	uint8_t ref[16], buf[32];
	uint64_t vals[2] = { v, (uint32_t)v };
	for (int i = 0; i < 2; i++) {
		uint64_t x = vals[i];
		unsigned n = ref_enc(ref, x);
		memset(buf, 0xAA, sizeof buf);
		size_t m = i ? mtbl_varint_encode32(buf + 8, (uint32_t)x) : mtbl_varint_encode64(buf + 8, x);
		if (m != n || memcmp(buf + 8, ref, n)) { printf("encode%s(%#llx): %zu bytes, reference %u bytes or bytes differ\n", i ? "32" : "64", (unsigned long long)x, m, n); bad = 1; }
		for (unsigned k = 0; k < 32; k++) if ((k < 8 || k >= 8 + m) && buf[k] != 0xAA) { printf("encode wrote outside its bytes at %u\n", k); bad = 1; }
		if (mtbl_varint_length(x) != n) { printf("varint_length(%#llx)=%u, reference %u\n", (unsigned long long)x, mtbl_varint_length(x), n); bad = 1; }
		if (mtbl_varint_length_packed(ref, n) != n) { printf("length_packed wrong for %#llx\n", (unsigned long long)x); bad = 1; }
		uint64_t d64 = 0; size_t c = mtbl_varint_decode64(ref, &d64);
		if (c != n || d64 != x) { printf("decode64(ref(%#llx)) = %#llx/%zu\n", (unsigned long long)x, (unsigned long long)d64, c); bad = 1; }
		if (i) { uint32_t d32 = 0; c = mtbl_varint_decode32(ref, &d32); if (c != n || d32 != (uint32_t)x) { printf("decode32 wrong for %#llx\n", (unsigned long long)x); bad = 1; } }
	}
	memset(buf, 0xC3, sizeof buf);
	mtbl_fixed_encode64(buf + 8 + off, v);
	for (int k = 0; k < 8; k++) if (buf[8 + off + k] != (uint8_t)(v >> (8 * k))) { printf("fixed_encode64 byte %d wrong at offset %u\n", k, off); bad = 1; }
	if (mtbl_fixed_decode64(buf + 8 + off) != v) { printf("fixed_decode64(encode64(%#llx)) = %#llx at offset %u\n", (unsigned long long)v, (unsigned long long)mtbl_fixed_decode64(buf + 8 + off), off); bad = 1; }
	mtbl_fixed_encode32(buf + 8 + off, (uint32_t)v);
	for (int k = 0; k < 4; k++) if (buf[8 + off + k] != (uint8_t)(v >> (8 * k))) { printf("fixed_encode32 byte %d wrong\n", k); bad = 1; }
	if (mtbl_fixed_decode32(buf + 8 + off) != (uint32_t)v) { printf("fixed_decode32 round trip wrong at offset %u\n", off); bad = 1; }
	if (argc > 3) {   /* arbitrary bytes */
		uint8_t b[16] = {0}; int nb = 0; for (int a = 3; a < argc && nb < 12; a++) b[nb++] = strtoul(argv[a], 0, 16);
		uint64_t w = 0; for (int k = 0; k < 8; k++) w |= (uint64_t)b[k] << (8 * k);
		memcpy(buf + 8 + off, b, 8);
		if (mtbl_fixed_decode64(buf + 8 + off) != w || mtbl_fixed_decode32(buf + 8 + off) != (uint32_t)w) { printf("fixed_decode on arbitrary bytes wrong (offset %u)\n", off); bad = 1; }
		unsigned t = 0; while (t < 12 && (b[t] & 0x80)) t++;
		uint64_t want = 0; for (unsigned k = 0; k <= t && k < 10; k++) want |= (uint64_t)(b[k] & 0x7f) << (7 * k);
		uint64_t g = 1; size_t c = mtbl_varint_decode64(b, &g);
		if (t < 10 ? (c != t + 1 || g != want) : (c != 0)) { printf("decode64 on arbitrary bytes wrong\n"); bad = 1; }
	}
	printf(bad ? "FAIL\n" : "PASS\n");
	return bad;
}
