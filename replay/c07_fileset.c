/* Native replay for C07: fileset handles (A = init, B = dup of A), reload interval NEVER, scripted ops.
 * usage: c07_fileset <dir> <op>...
 *   w<digits>  rewrite the setfile to name tables t<d>.mtbl for each digit (new inode each time)
 *   RA / RB    mtbl_fileset_reload_now(handle)       rA / rB   mtbl_fileset_reload(handle)
 *   iA / iB    open a fresh iterator on the handle's source, drain it, compare with the oracle, close it
 *   oA / oB    open an iterator and keep it open (pins the snapshot);  cA / cB  drain+check+close the pinned one
 * Oracle: the shared set is the setfile content as of the last reload that actually ran (no iterator open);
 * table t<d> holds keys "<d>a","<d>b".  exit 0 = every drain matched, 1 = mismatch or crash (ASan). */
#include <stdio.h>
#include <stdlib.h>
#include <string.h>
#include <unistd.h>
#include <sys/wait.h>
#include <mtbl.h>

static char dir[256], setfile[300];
static char cur[16] = "";       /* digits in the setfile now */
static char loaded[16] = "";    /* oracle: digits of the shared set */
static int n_open;
static int dirty = 1;           /* reload_needed */

static void mktable(int d) {
	char fn[320], k[8]; snprintf(fn, sizeof fn, "%s/t%d.mtbl", dir, d); unlink(fn);
	struct mtbl_writer *w = mtbl_writer_init(fn, NULL);
	snprintf(k, sizeof k, "%da", d); mtbl_writer_add(w, (uint8_t *)k, 2, (uint8_t *)"v", 1);
	snprintf(k, sizeof k, "%db", d); mtbl_writer_add(w, (uint8_t *)k, 2, (uint8_t *)"v", 1);
	mtbl_writer_destroy(&w);
}
static void wset(const char *digits) {
	char tmp[320]; snprintf(tmp, sizeof tmp, "%s/set.tmp", dir);
	FILE *f = fopen(tmp, "w");
	for (const char *p = digits; *p; p++) fprintf(f, "t%c.mtbl\n", *p);
	fclose(f); rename(tmp, setfile);
	snprintf(cur, sizeof cur, "%s", digits);
}
static int cmpc(const void *a, const void *b) { return *(const char *)a - *(const char *)b; }
static int drain(struct mtbl_iter *it, const char *snap, int step) {
	char want[16]; snprintf(want, sizeof want, "%s", snap); qsort(want, strlen(want), 1, cmpc);
	const uint8_t *k, *v; size_t lk, lv; int bad = 0; size_t idx = 0;
	while (mtbl_iter_next(it, &k, &lk, &v, &lv) == mtbl_res_success) {
		char exp[4] = { want[idx / 2], (idx % 2) ? 'b' : 'a', 0 };
		if (idx / 2 >= strlen(want) || lk != 2 || memcmp(k, exp, 2)) { printf("step %d: entry %zu is '%.*s', expected '%s'\n", step, idx, (int)lk, k, idx / 2 < strlen(want) ? exp : "(end)"); bad = 1; break; }
		idx++;
	}
	if (!bad && idx != 2 * strlen(want)) { printf("step %d: %zu entries, expected %zu\n", step, idx, 2 * strlen(want)); bad = 1; }
	return bad;
}
static void oracle_reload(int now) {   /* a reload attempt through any handle */
	if (n_open > 0) { if (now) dirty = 1; return; }
	if (now || dirty) { snprintf(loaded, sizeof loaded, "%s", cur); dirty = 0; }
}
int main(int argc, char **argv)
{
	if (argc < 3) return 2;
	setvbuf(stdout, NULL, _IONBF, 0);
	snprintf(dir, sizeof dir, "%s", argv[1]); snprintf(setfile, sizeof setfile, "%s/set.fileset", dir);
	pid_t pid = fork();
	if (pid == 0) {
		for (int d = 1; d <= 4; d++) mktable(d);
		wset("12");
		struct mtbl_fileset_options *fo = mtbl_fileset_options_init();
		mtbl_fileset_options_set_reload_interval(fo, MTBL_FILESET_RELOAD_INTERVAL_NEVER);
		struct mtbl_fileset *h[2]; h[0] = mtbl_fileset_init(setfile, fo); h[1] = mtbl_fileset_dup(h[0], fo);
		struct mtbl_iter *pin[2] = { NULL, NULL }; char snap[2][16];
		int bad = 0;
		for (int a = 2; a < argc; a++) {
			const char *op = argv[a]; int x = (op[1] == 'B');
			switch (op[0]) {
			case 'w': wset(op + 1); break;
			case 'R': mtbl_fileset_reload_now(h[x]); oracle_reload(1); break;
			case 'r': mtbl_fileset_reload(h[x]); oracle_reload(0); break;
			case 'i': { oracle_reload(0); struct mtbl_iter *it = mtbl_source_iter(mtbl_fileset_source(h[x])); n_open++;
				    bad |= drain(it, loaded, a - 2); mtbl_iter_destroy(&it); n_open--; oracle_reload(0); break; }
			case 'o': oracle_reload(0); pin[x] = mtbl_source_iter(mtbl_fileset_source(h[x])); n_open++; snprintf(snap[x], 16, "%s", loaded); break;
			case 'c': bad |= drain(pin[x], snap[x], a - 2); mtbl_iter_destroy(&pin[x]); n_open--; oracle_reload(0); break;
			}
		}
		mtbl_fileset_destroy(&h[1]); mtbl_fileset_destroy(&h[0]); mtbl_fileset_options_destroy(&fo);
		_exit(bad);
	}
	int st = 0; waitpid(pid, &st, 0);
	if (WIFSIGNALED(st)) { printf("FAIL: died with signal %d\n", WTERMSIG(st)); return 1; }
	if (WEXITSTATUS(st)) { printf("FAIL\n"); return 1; }
	printf("PASS\n"); return 0;
}
