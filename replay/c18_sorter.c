/* Native replay for C18 (sorter): resource balance of a sorter life cycle.
 * usage: c18_sorter <tmpdir> <nchunks> <mergefail:0|1> <pool:0|N> <iterate:0|1>
 *   adds enough entries to spill <nchunks> chunks (MIN_SORTER_MEMORY = 10 MiB each), optionally with a merge
 *   function that fails, optionally iterates, destroys everything, then compares the process's open descriptors
 *   and mappings with those before.  exit 0 balanced, 1 leak/crash. */
#define _GNU_SOURCE
#include <stdio.h>
#include <stdlib.h>
#include <string.h>
#include <dirent.h>
#include <unistd.h>
#include <sys/wait.h>
#include <mtbl.h>

static int count_dir(const char *d) { DIR *x = opendir(d); int n = 0; struct dirent *e; while ((e = readdir(x))) if (e->d_name[0] != '.') n++; closedir(x); return n; }
static int count_maps(void) { FILE *f = fopen("/proc/self/maps", "r"); char l[512]; int n = 0; while (fgets(l, sizeof l, f)) if (strstr(l, ".mtbl.")) n++; fclose(f); return n; }
#ifdef __SANITIZE_ADDRESS__
int __lsan_do_recoverable_leak_check(void);
#define LEAKS() __lsan_do_recoverable_leak_check()
#else
#define LEAKS() 0
#endif
static int failing;
static void mergefn(void *c, const uint8_t *k, size_t lk, const uint8_t *v0, size_t l0, const uint8_t *v1, size_t l1, uint8_t **out, size_t *lo) {
	(void)c; (void)k; (void)lk; (void)v1; (void)l1;
	if (failing) { *out = NULL; *lo = 0; return; }
	*out = malloc(l0 ? l0 : 1); memcpy(*out, v0, l0); *lo = l0;
}
int main(int argc, char **argv)
{
	if (argc < 6) return 2;
	setvbuf(stdout, NULL, _IONBF, 0);
	const char *tmp = argv[1]; int nchunks = atoi(argv[2]); failing = atoi(argv[3]); int pool = atoi(argv[4]); int iterate = atoi(argv[5]);
	pid_t pid = fork();
	if (pid == 0) {
		int fds0 = count_dir("/proc/self/fd"), maps0 = count_maps(), tmp0 = count_dir(tmp);
		struct mtbl_threadpool *tp = pool ? mtbl_threadpool_init(pool) : NULL;
		struct mtbl_sorter_options *so = mtbl_sorter_options_init();
		mtbl_sorter_options_set_temp_dir(so, tmp);
		mtbl_sorter_options_set_max_memory(so, 1);      /* clamped to the minimum */
		mtbl_sorter_options_set_merge_func(so, mergefn, NULL);
		if (tp) mtbl_sorter_options_set_threadpool(so, tp);
		struct mtbl_sorter *s = mtbl_sorter_init(so);
		char key[32]; static uint8_t val[4096];
		size_t per = 10485760 / (8 + 8 + 10 + sizeof val) + 2;
		for (int c = 0; c < nchunks; c++)
			for (size_t i = 0; i < per; i++) {
				snprintf(key, sizeof key, "k%09zu", failing ? i / 2 : i + c);   /* duplicates inside a chunk when failing */
				(void)mtbl_sorter_add(s, (uint8_t *)key, strlen(key), val, sizeof val);
			}
		if (iterate) {
			struct mtbl_iter *it = mtbl_sorter_iter(s);
			const uint8_t *k, *v; size_t lk, lv;
			if (it) { (void)mtbl_iter_next(it, &k, &lk, &v, &lv); mtbl_iter_destroy(&it); }
		}
		mtbl_sorter_destroy(&s);
		mtbl_sorter_options_destroy(&so);
		if (tp) mtbl_threadpool_destroy(&tp);
		int fds1 = count_dir("/proc/self/fd"), maps1 = count_maps(), tmp1 = count_dir(tmp);
		if (fds1 != fds0 || maps1 != maps0 || tmp1 != tmp0) {
			printf("descriptors %d -> %d, chunk mappings %d -> %d, temp files %d -> %d\n", fds0, fds1, maps0, maps1, tmp0, tmp1);
			_exit(1);
		}
		if (LEAKS()) { printf("heap allocations leaked (LeakSanitizer)\n"); _exit(1); }
		_exit(0);
	}
	int st = 0; waitpid(pid, &st, 0);
	if (WIFSIGNALED(st)) { printf("FAIL: died with signal %d\n", WTERMSIG(st)); return 1; }
	if (WEXITSTATUS(st)) { printf("FAIL: resources not released\n"); return 1; }
	printf("PASS\n"); return 0;
}
