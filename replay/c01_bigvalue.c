#include <mtbl.h>
#include <stdio.h>
#include <stdlib.h>
#include <string.h>
#include <unistd.h>
int main(void){
  size_t n=((size_t)1<<32)+5; uint8_t *v=calloc(1,n); if(!v){puts("nomem");return 2;}
  v[0]='Q'; v[n-1]='Z';
  unlink("/tmp/w/big.mtbl");
  struct mtbl_writer_options *wo=mtbl_writer_options_init(); mtbl_writer_options_set_compression(wo,MTBL_COMPRESSION_NONE);
  struct mtbl_writer *w=mtbl_writer_init("/tmp/w/big.mtbl",wo);
  int r1=mtbl_writer_add(w,(const uint8_t*)"a",1,v,n); int r2=mtbl_writer_add(w,(const uint8_t*)"b",1,(const uint8_t*)"x",1);
  printf("add big=%d add small=%d\n",r1,r2);
  mtbl_writer_destroy(&w); free(v);
  struct mtbl_reader *r=mtbl_reader_init("/tmp/w/big.mtbl",NULL); if(!r){puts("reader NULL");return 1;}
  struct mtbl_iter *it=mtbl_source_iter(mtbl_reader_source(r)); const uint8_t *k,*val; size_t lk,lv; int cnt=0; int ok=1;
  while(mtbl_iter_next(it,&k,&lk,&val,&lv)==mtbl_res_success){ printf("entry %d: key len %zu '%c' val len %zu\n",cnt,lk,lk?k[0]:'-',lv); if(cnt==0&&(lv!=n))ok=0; if(cnt==1&&!(lk==1&&k[0]=='b'&&lv==1))ok=0; cnt++; if(cnt>5)break;}
  if(cnt!=2)ok=0; printf("entries=%d ok=%d\n",cnt,ok);
  mtbl_iter_destroy(&it); mtbl_reader_destroy(&r); unlink("/tmp/w/big.mtbl"); return ok?0:1; }
