/* Native replay for C03: reader iterator histories of {next, seek(k)} against a sorted-array oracle.
 * usage: c03_seek <tmpfile> <nkeys> <vallen> <kind:iter|get|prefix|range> <op>...
 *   keys are "k%05d" for i*2 (even slots); op "n" = next, "s<j>" = seek to slot j (odd j = between keys,
 *   j >= 2*nkeys = past the end).  exit 0: all answers equal the oracle; 1: mismatch (property violated). */
#include <stdio.h>
#include <stdlib.h>
#include <string.h>
#include <unistd.h>
#include <mtbl.h>

static void mk(char *buf, int slot) { sprintf(buf, "k%05d", slot); }

int main(int argc, char **argv)
{
	if (argc < 5) return 2;
	const char *fn = argv[1];
	int nkeys = atoi(argv[2]), vallen = atoi(argv[3]);
	const char *kind = argv[4];
	unlink(fn);
	struct mtbl_writer_options *wo = mtbl_writer_options_init();
	mtbl_writer_options_set_compression(wo, MTBL_COMPRESSION_NONE);
	mtbl_writer_options_set_block_size(wo, 1024);
	mtbl_writer_options_set_block_restart_interval(wo, 3);
	struct mtbl_writer *w = mtbl_writer_init(fn, wo);
	if (!w) return 2;
	char *val = malloc(vallen + 8);
	char key[32];
	for (int i = 0; i < nkeys; i++) {
		mk(key, 2 * i);
		memset(val, 'a' + (i % 26), vallen);
		if (mtbl_writer_add(w, (uint8_t *)key, strlen(key), (uint8_t *)val, vallen) != mtbl_res_success) return 2;
	}
	mtbl_writer_destroy(&w);
	mtbl_writer_options_destroy(&wo);
	struct mtbl_reader *r = mtbl_reader_init(fn, NULL);
	if (!r) return 2;
	const struct mtbl_source *s = mtbl_reader_source(r);
	struct mtbl_iter *it;
	int lo = 0, hi = 2 * nkeys;       /* iterator range in slots: [lo, hi) */
	char k0[32], k1[32];
	if (!strcmp(kind, "iter")) it = mtbl_source_iter(s);
	else { /* range over the middle half */
		lo = (nkeys / 4) * 2; hi = (3 * nkeys / 4) * 2 + 1;
		mk(k0, lo); mk(k1, hi - 1);
		it = mtbl_source_get_range(s, (uint8_t *)k0, strlen(k0), (uint8_t *)k1, strlen(k1));
	}
	if (!it) return 2;
	int pos = lo;          /* oracle: next slot to return (even) */
	int dead = 0;          /* sticky failure */
	int bad = 0;
	for (int a = 5; a < argc; a++) {
		if (argv[a][0] == 's') {
			int j = atoi(argv[a] + 1);
			if (j < lo) j = lo;       /* property: k at or after the start of the range */
			mk(key, j);
			mtbl_res res = mtbl_iter_seek(it, (uint8_t *)key, strlen(key));
			(void)res;
			pos = (j % 2) ? j + 1 : j;
			dead = 0;
		} else {
			const uint8_t *k, *v; size_t lk, lv;
			mtbl_res res = mtbl_iter_next(it, &k, &lk, &v, &lv);
			int expect_fail = dead || pos >= hi || pos >= 2 * nkeys;
			if (expect_fail) {
				if (res == mtbl_res_success) { printf("step %d: expected failure, got key %.*s\n", a - 5, (int)lk, k); bad = 1; }
				dead = 1;
			} else {
				mk(key, pos);
				if (res != mtbl_res_success) { printf("step %d: expected %s, got failure\n", a - 5, key); bad = 1; dead = 1; }
				else if (lk != strlen(key) || memcmp(k, key, lk)) { printf("step %d: expected %s, got %.*s\n", a - 5, key, (int)lk, k); bad = 1; }
				else if ((int)lv != vallen || v[0] != 'a' + ((pos / 2) % 26)) { printf("step %d: wrong value for %s\n", a - 5, key); bad = 1; }
				pos += 2;
			}
		}
	}
	mtbl_iter_destroy(&it);
	mtbl_reader_destroy(&r);
	unlink(fn);
	printf(bad ? "FAIL\n" : "PASS\n");
	return bad;
}
