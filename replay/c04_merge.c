/* Native replay for C04/C05: merger over user-defined sources (buffers invalidated on every call)
 * against an independent oracle (sorted union, values folded).
 * usage: c04_merge <merge:0|1> <src>... -- <op>...
 *   <src> = "key=val,key=val,..." sorted by key (key may be empty: "=v"); "-" = empty source
 *   merge=1: merge function concatenates values (oracle compares the multiset of bytes);
 *   ops: n = next, s<key> = seek, g<key> = switch to a get(key) iterator, p<prefix>, r<k0>:<k1>
 * exit 0 = every answer equals the oracle, 1 = mismatch. */
#include <stdio.h>
#include <stdlib.h>
#include <string.h>
#include <mtbl.h>

struct ent { char *k, *v; };
struct src { struct ent *e; int n; };
struct sit { struct src *s; int pos; int hi_set; char *lo, *hi; int prefix; uint8_t *kb, *vb; };

static int cmpk(const char *a, const char *b) {
	size_t la = strlen(a), lb = strlen(b), l = la < lb ? la : lb;
	int r = memcmp(a, b, l);
	if (r) return r;
	return la < lb ? -1 : la > lb;
}
static mtbl_res sit_seek(void *v, const uint8_t *key, size_t len) {
	struct sit *it = v; char *k = strndup((const char *)key, len);
	it->pos = 0;
	while (it->pos < it->s->n && cmpk(it->s->e[it->pos].k, k) < 0) it->pos++;
	free(k);
	return mtbl_res_success;
}
static mtbl_res sit_next(void *v, const uint8_t **k, size_t *lk, const uint8_t **val, size_t *lv) {
	struct sit *it = v;
	/* invalidate the buffers handed out by the previous call */
	if (it->kb) { memset(it->kb, 0xEE, 1); free(it->kb); it->kb = NULL; }
	if (it->vb) { memset(it->vb, 0xEE, 1); free(it->vb); it->vb = NULL; }
	if (it->pos >= it->s->n) return mtbl_res_failure;
	struct ent *e = &it->s->e[it->pos];
	if (it->hi_set && cmpk(e->k, it->hi) > 0) return mtbl_res_failure;
	if (it->prefix && strncmp(e->k, it->lo, strlen(it->lo)) != 0) return mtbl_res_failure;
	it->pos++;
	*lk = strlen(e->k); *lv = strlen(e->v);
	it->kb = malloc(*lk + 1); memcpy(it->kb, e->k, *lk + 1);
	it->vb = malloc(*lv + 1); memcpy(it->vb, e->v, *lv + 1);
	*k = it->kb; *val = it->vb;
	return mtbl_res_success;
}
static void sit_free(void *v) { struct sit *it = v; free(it->kb); free(it->vb); free(it->lo); free(it->hi); free(it); }
static struct mtbl_iter *mk(struct src *s, const char *lo, const char *hi, int prefix) {
	struct sit *it = calloc(1, sizeof(*it)); it->s = s;
	if (lo) { it->lo = strdup(lo); while (it->pos < s->n && cmpk(s->e[it->pos].k, lo) < 0) it->pos++; }
	if (hi) { it->hi = strdup(hi); it->hi_set = 1; }
	it->prefix = prefix;
	return mtbl_iter_init(sit_seek, sit_next, sit_free, it);
}
static struct mtbl_iter *s_iter(void *c) { return mk(c, NULL, NULL, 0); }
static struct mtbl_iter *s_get(void *c, const uint8_t *k, size_t l) { char *x = strndup((const char *)k, l); struct mtbl_iter *i = mk(c, x, x, 0); free(x); return i; }
static struct mtbl_iter *s_pre(void *c, const uint8_t *k, size_t l) { char *x = strndup((const char *)k, l); struct mtbl_iter *i = mk(c, x, NULL, 1); free(x); return i; }
static struct mtbl_iter *s_rng(void *c, const uint8_t *k0, size_t l0, const uint8_t *k1, size_t l1) {
	char *x = strndup((const char *)k0, l0), *y = strndup((const char *)k1, l1); struct mtbl_iter *i = mk(c, x, y, 0); free(x); free(y); return i; }

static void mergefn(void *clos, const uint8_t *key, size_t lk, const uint8_t *v0, size_t l0, const uint8_t *v1, size_t l1, uint8_t **out, size_t *lo) {
	(void)clos; (void)key; (void)lk;
	*out = malloc(l0 + l1 + 1); memcpy(*out, v0, l0); memcpy(*out + l0, v1, l1); *lo = l0 + l1;
}
static int cc(const void *a, const void *b) { return *(const char *)a - *(const char *)b; }

/* oracle */
static struct ent all[4096]; static int nall;     /* all entries, sorted stably by key */
static struct ent out[4096]; static int nout;     /* expected output */
static int ecmp(const void *a, const void *b) { return cmpk(((const struct ent *)a)->k, ((const struct ent *)b)->k); }

int main(int argc, char **argv)
{
	if (argc < 3) return 2;
	int merge = atoi(argv[1]);
	struct src srcs[16]; int ns = 0; int a = 2;
	for (; a < argc && strcmp(argv[a], "--"); a++) {
		struct src *s = &srcs[ns++]; s->e = calloc(256, sizeof(struct ent)); s->n = 0;
		if (!strcmp(argv[a], "-")) continue;
		char *dup = strdup(argv[a]);
		for (char *t = strtok(dup, ","); t; t = strtok(NULL, ",")) {
			char *eq = strchr(t, '='); *eq = 0;
			s->e[s->n].k = strdup(t); s->e[s->n].v = strdup(eq + 1); s->n++;
			all[nall++] = s->e[s->n - 1];
		}
	}
	a++;
	qsort(all, nall, sizeof(all[0]), ecmp);
	for (int i = 0; i < nall; i++) {
		if (merge && nout && cmpk(out[nout - 1].k, all[i].k) == 0) {
			char *nv = malloc(strlen(out[nout - 1].v) + strlen(all[i].v) + 1);
			strcpy(nv, out[nout - 1].v); strcat(nv, all[i].v); out[nout - 1].v = nv;
		} else out[nout++] = all[i];
	}
	struct mtbl_merger_options *mo = mtbl_merger_options_init();
	if (merge) mtbl_merger_options_set_merge_func(mo, mergefn, NULL);
	struct mtbl_merger *m = mtbl_merger_init(mo);
	struct mtbl_source *ss[16];
	for (int i = 0; i < ns; i++) { ss[i] = mtbl_source_init(s_iter, s_get, s_pre, s_rng, NULL, &srcs[i]); mtbl_merger_add_source(m, ss[i]); }
	struct mtbl_iter *it = mtbl_source_iter(mtbl_merger_source(m));
	int pos = 0, dead = 0, bad = 0;
	const char *lo = "", *hi = NULL; int prefix = 0;
	for (int step = 0; a < argc; a++, step++) {
		const char *op = argv[a];
		if (op[0] == 's') {
			const char *k = op + 1; if (cmpk(k, lo) < 0) k = lo;
			mtbl_iter_seek(it, (const uint8_t *)k, strlen(k));
			pos = 0; while (pos < nout && cmpk(out[pos].k, k) < 0) pos++;
			dead = 0;
		} else if (op[0] == 'g' || op[0] == 'p' || op[0] == 'r') {
			mtbl_iter_destroy(&it);
			const struct mtbl_source *ms = mtbl_merger_source(m);
			char *k0 = strdup(op + 1), *k1 = NULL;
			if (op[0] == 'r') { k1 = strchr(k0, ':'); *k1++ = 0; }
			if (op[0] == 'g') { it = mtbl_source_get(ms, (uint8_t *)k0, strlen(k0)); lo = k0; hi = k0; prefix = 0; }
			if (op[0] == 'p') { it = mtbl_source_get_prefix(ms, (uint8_t *)k0, strlen(k0)); lo = k0; hi = NULL; prefix = 1; }
			if (op[0] == 'r') { it = mtbl_source_get_range(ms, (uint8_t *)k0, strlen(k0), (uint8_t *)k1, strlen(k1)); lo = k0; hi = k1; prefix = 0; }
			pos = 0; while (pos < nout && cmpk(out[pos].k, lo) < 0) pos++;
			dead = 0;
		} else {
			const uint8_t *k, *v; size_t lk, lv;
			mtbl_res res = mtbl_iter_next(it, &k, &lk, &v, &lv);   /* it == NULL -> failure */
			int fail = dead || pos >= nout || (hi && cmpk(out[pos].k, hi) > 0) || (prefix && strncmp(out[pos].k, lo, strlen(lo)));
			if (fail) {
				if (res == mtbl_res_success) { printf("step %d: expected failure, got '%.*s'='%.*s'\n", step, (int)lk, k, (int)lv, v); bad = 1; }
				dead = 1;
			} else if (res != mtbl_res_success) { printf("step %d: expected '%s', got failure\n", step, out[pos].k); bad = 1; dead = 1; }
			else {
				char got[512], want[512];
				snprintf(got, sizeof got, "%.*s", (int)lv, v); snprintf(want, sizeof want, "%s", out[pos].v);
				if (merge) { qsort(got, strlen(got), 1, cc); qsort(want, strlen(want), 1, cc); }
				if (lk != strlen(out[pos].k) || memcmp(k, out[pos].k, lk) || strcmp(got, want)) {
					printf("step %d: expected '%s'='%s', got '%.*s'='%.*s'\n", step, out[pos].k, out[pos].v, (int)lk, k, (int)lv, v); bad = 1;
				}
				pos++;
			}
		}
	}
	mtbl_iter_destroy(&it);
	mtbl_merger_destroy(&m); mtbl_merger_options_destroy(&mo);
	for (int i = 0; i < ns; i++) mtbl_source_destroy(&ss[i]);
	printf(bad ? "FAIL\n" : "PASS\n");
	return bad;
}
