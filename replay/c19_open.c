/* Native replay for C19: open arbitrary bytes as a table in a child process; the parent reports how it ended.
 * usage: c19_open <file> <verify:0|1> [iterate:0|1]
 * exit 0: child returned (NULL or reader) or stopped on an assertion (SIGABRT) -- permitted outcomes;
 * exit 1: child died with SIGSEGV/SIGBUS (or an ASan report): memory outside the file was accessed. */
#include <stdio.h>
#include <stdlib.h>
#include <string.h>
#include <signal.h>
#include <sys/wait.h>
#include <unistd.h>
#include <mtbl.h>

int main(int argc, char **argv)
{
	if (argc < 3) return 2;
	pid_t pid = fork();
	if (pid == 0) {
		struct mtbl_reader_options *o = mtbl_reader_options_init();
		mtbl_reader_options_set_verify_checksums(o, atoi(argv[2]));
		struct mtbl_reader *r = mtbl_reader_init(argv[1], o);
		if (r) mtbl_reader_destroy(&r);
		mtbl_reader_options_destroy(&o);
		_exit(r ? 0 : 0);
	}
	int st = 0;
	waitpid(pid, &st, 0);
	if (WIFSIGNALED(st)) {
		int sig = WTERMSIG(st);
		if (sig == SIGABRT) { printf("PASS (stopped on assertion)\n"); return 0; }
		printf("FAIL: mtbl_reader_init died with signal %d (%s)\n", sig, strsignal(sig));
		return 1;
	}
	if (WEXITSTATUS(st) != 0) { printf("FAIL: child exit %d (sanitizer report?)\n", WEXITSTATUS(st)); return 1; }
	printf("PASS\n");
	return 0;
}
