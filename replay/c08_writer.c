/* Native replay for C08/C09/C10/C01: seeded random writer sessions (binary keys incl. 0xFF and the empty key, proper
 * prefixes, non-increasing keys that must be refused, oversized entries, foreign prefix bytes, pooled or not); every add's
 * result is compared with a reference comparator, the finished file is validated by the independent decoder
 * (mtbl_validate.inc), the trailer statistics are compared with the truth and the table is read back through the library.
 * usage: c08_writer <tmpfile> <seed> <sessions>    exit 0 all fine, 1 a session violates a property */
#include "mtbl_validate.inc"
#include <mtbl.h>
static unsigned rs; static unsigned rnd(void) { rs = rs * 1103515245u + 12345u; return (rs >> 16) & 0x7fff; }
static int kcmp(const uint8_t *a, size_t la, const uint8_t *b, size_t lb) { size_t l = la < lb ? la : lb; int r = memcmp(a, b, l); if (r) return r; return la < lb ? -1 : la > lb; }
#define MAXE 400
static uint8_t *K[MAXE], *V[MAXE]; static size_t LK[MAXE], LV[MAXE]; static int nacc;
int main(int argc, char **argv)
{
	if (argc < 4) return 2;
	rs = atoi(argv[2]); int sessions = atoi(argv[3]); int bad = 0;
	for (int s = 0; s < sessions && !bad; s++) {
		size_t bs = 1024 + rnd() % 1500, ri = 1 + rnd() % 17, pre = (rnd() % 3 == 0) ? 13 : 0; int pooled = rnd() % 4 == 0;
		unlink(argv[1]);
		int fd = open(argv[1], O_RDWR | O_CREAT, 0644);
		if (pre && write(fd, "Hello, world!", 13) != 13) return 2;
		struct mtbl_threadpool *tp = pooled ? mtbl_threadpool_init(2) : NULL;
		struct mtbl_writer_options *wo = mtbl_writer_options_init();
		mtbl_writer_options_set_compression(wo, MTBL_COMPRESSION_NONE); mtbl_writer_options_set_block_size(wo, bs); mtbl_writer_options_set_block_restart_interval(wo, ri);
		if (tp) mtbl_writer_options_set_threadpool(wo, tp);
		struct mtbl_writer *w = mtbl_writer_init_fd(fd, wo);
		nacc = 0; uint64_t sk = 0, sv = 0;
		uint8_t cur[8]; size_t lc = 0; int n = 5 + rnd() % 200;
		for (int i = 0; i < n && nacc < MAXE; i++) {
			uint8_t k[8]; size_t lk;
			unsigned mode = rnd() % 10;
			if (i == 0 && rnd() % 3 == 0) { lk = 0; }                                  /* empty key first */
			else if (mode == 0 && nacc) { lk = LK[nacc - 1]; memcpy(k, K[nacc - 1], lk); }  /* equal: refuse */
			else if (mode == 1 && nacc && LK[nacc - 1]) { lk = LK[nacc - 1] - 1; memcpy(k, K[nacc - 1], lk); }   /* proper prefix: refuse */
			else if (mode == 2) { lk = rnd() % 6; for (size_t j = 0; j < lk; j++) k[j] = rnd(); }          /* random */
			else { /* successor-ish: bump last byte, extend, or roll 0xFF over */
				lk = lc; memcpy(k, cur, lc);
				unsigned m2 = rnd() % 4;
				if (m2 == 0 && lk < 8) k[lk++] = rnd() % 2 ? 0x00 : 0xff;
				else if (lk && k[lk - 1] != 0xff) k[lk - 1] += 1 + (rnd() % 2 && k[lk - 1] < 0xf0 ? rnd() % 3 : 0);
				else if (lk >= 2 && k[lk - 2] != 0xff) { k[lk - 2]++; k[lk - 1] = rnd() % 2 ? 0 : rnd(); }
				else if (lk < 8) k[lk++] = rnd();
			}
			size_t lv = rnd() % 8 == 0 ? rnd() % 3000 : rnd() % 40; if (rnd() % 20 == 0) lv = 0;
			uint8_t *v = malloc(lv + 1); for (size_t j = 0; j < lv; j++) v[j] = rnd();
			int want = nacc == 0 || kcmp(k, lk, K[nacc - 1], LK[nacc - 1]) > 0;
			mtbl_res r = mtbl_writer_add(w, k, lk, v, lv);
			if ((r == mtbl_res_success) != want) { printf("FAIL: session %d add %d: result %d, reference says %d\n", s, i, r, want); bad = 1; break; }
			if (want) { K[nacc] = malloc(lk + 1); memcpy(K[nacc], k, lk); LK[nacc] = lk; V[nacc] = v; LV[nacc] = lv; nacc++; sk += lk; sv += lv; memcpy(cur, k, lk); lc = lk; } else free(v);
		}
		mtbl_writer_destroy(&w); mtbl_writer_options_destroy(&wo); if (tp) mtbl_threadpool_destroy(&tp); close(fd);
		if (bad) break;
		if (nacc > 0) { v_failures = 0; if (v_validate(argv[1], (const uint8_t *)"Hello, world!", pre, bs, ri)) { printf("FAIL: session %d (block size %zu, interval %zu, prefix %zu, pooled %d): independent validator rejects the file\n", s, bs, ri, pre, pooled); bad = 1; break; } }
		/* read back + trailer */
		int rfd = open(argv[1], O_RDONLY); struct stat st; fstat(rfd, &st); uint8_t *f = malloc(st.st_size); if (read(rfd, f, st.st_size) != st.st_size) return 2; close(rfd);
		const uint8_t *t = f + st.st_size - 512;
		if (v_le64(t + 24) != (uint64_t)nacc || v_le64(t + 56) != sk || v_le64(t + 64) != sv) { printf("FAIL: session %d: trailer entries/keys/values %llu/%llu/%llu, truth %d/%llu/%llu\n", s, (unsigned long long)v_le64(t + 24), (unsigned long long)v_le64(t + 56), (unsigned long long)v_le64(t + 64), nacc, (unsigned long long)sk, (unsigned long long)sv); bad = 1; }
		if (v_le64(t) != pre + v_le64(t + 40)) { printf("FAIL: session %d: index offset %llu != start %zu + data bytes %llu\n", s, (unsigned long long)v_le64(t), pre, (unsigned long long)v_le64(t + 40)); bad = 1; }
		if (v_le64(t) + v_le64(t + 48) + 512 != (uint64_t)st.st_size) { printf("FAIL: session %d: index offset + index bytes + 512 != file size\n", s); bad = 1; }
		free(f);
		if (!bad && pre == 0) {
			struct mtbl_reader *r = mtbl_reader_init(argv[1], NULL);
			if (!r) { printf("FAIL: session %d: library cannot open its own file\n", s); bad = 1; }
			else { struct mtbl_iter *it = mtbl_source_iter(mtbl_reader_source(r)); const uint8_t *k, *v; size_t lk, lv; int i = 0;
				while (mtbl_iter_next(it, &k, &lk, &v, &lv) == mtbl_res_success) { if (i >= nacc || lk != LK[i] || memcmp(k, K[i], lk) || lv != LV[i] || memcmp(v, V[i], lv)) { printf("FAIL: session %d: entry %d read back differs\n", s, i); bad = 1; break; } i++; }
				if (!bad && i != nacc) { printf("FAIL: session %d: read back %d entries, added %d\n", s, i, nacc); bad = 1; }
				mtbl_iter_destroy(&it); mtbl_reader_destroy(&r); }
		}
		for (int i = 0; i < nacc; i++) { free(K[i]); free(V[i]); }
	}
	unlink(argv[1]);
	printf(bad ? "FAIL\n" : "PASS\n");
	return bad;
}
