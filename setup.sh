#!/bin/sh
# Offline setup: nothing to build ahead of time -- every check rebuilds its goto binaries from /repo's working tree.
set -e
cd "$(dirname "$0")"
for t in cbmc goto-cc goto-instrument python3 z3 cvc5 cc; do command -v $t >/dev/null || { echo "missing tool $t"; exit 1; }; done
mkdir -p build evidence replay-out
# native build of the library is needed by replays only; make sure the tree is configured
test -f /repo/config.h || { echo "/repo/config.h missing (run ./configure in /repo)"; exit 1; }
echo setup ok
