"""Core of the contract-checking driver: build goto binaries from /repo's working tree,
instrument contracts, run cbmc, classify obligations, decide verdicts, write evidence.

Exit codes of a property check:  0 held / 1 violation (VIOLATION line) / 2 undecided (tool limit,
extraction break, vacuity guard) -- never a violation.
"""
import json, os, re, resource, shutil, subprocess, sys, time, hashlib
from concurrent.futures import ThreadPoolExecutor
import threading

ROOT = os.path.dirname(os.path.dirname(os.path.abspath(__file__)))
REPO = os.environ.get("VERIF_REPO", "/repo")
BUILD = os.path.join(os.environ.get("VERIF_OUT", ROOT), "build")
GOTO_FLAGS = ["-include", f"{REPO}/config.h", f"-I{ROOT}/env/include", f"-I{REPO}", f"-I{REPO}/mtbl", f"-I{ROOT}", "-DVG_CBMC"]
MEM_LIMIT = 14 * 1024 ** 3
NCPU = os.cpu_count() or 4
_sem = threading.Semaphore(NCPU)


class Undecided(Exception):
    pass


class Group:
    """One verification group = one harness entry point over real code.

    mode 'plain'  : explicit harness (real function(s) + env stubs, asserted postconditions)
    mode 'dfcc'   : goto-instrument --dfcc entry --enforce-contract f/f__spec, callees replaced by contracts
    strength 'U'  : unbounded (all inputs/iterations within the stated type ranges)
             'B:<bound>' : bounded stand-in, never counted as proved
    """

    def __init__(self, name, props, sources, entry, mode="plain", enforce=None, replace=(), loops=None,
                 flags=(), unwind=None, unwindset=None, object_bits=None, strength="U", tier="quick",
                 timeout=300, slice=False, repo_assert="L", safety="A", functions=(), assumptions=(),
                 glue=(), defines=(), replay=None, fallback=None, restrict_fp=(), backend="minisat (cbmc default SAT)",
                 frame_checked=None, expected_L=(), no_unwinding_assertions=False, extra_goto_flags=()):
        self.name = name; self.props = list(props); self.sources = list(sources); self.entry = entry
        self.mode = mode; self.enforce = enforce; self.replace = list(replace); self.loops = loops
        self.flags = list(flags); self.unwind = unwind; self.unwindset = dict(unwindset or {})
        self.object_bits = object_bits; self.strength = strength; self.tier = tier; self.timeout = timeout
        self.slice = slice; self.repo_assert = repo_assert; self.safety = safety
        self.functions = list(functions); self.assumptions = list(assumptions); self.glue = list(glue)
        self.defines = list(defines); self.replay = replay; self.fallback = fallback
        self.restrict_fp = list(restrict_fp); self.backend = backend
        self.frame_checked = (mode == "dfcc") if frame_checked is None else frame_checked
        self.expected_L = list(expected_L); self.no_unwinding_assertions = no_unwinding_assertions
        self.extra_goto_flags = list(extra_goto_flags)


def _limits():
    resource.setrlimit(resource.RLIMIT_AS, (MEM_LIMIT, MEM_LIMIT))
    os.setsid()


def run(cmd, timeout, cwd=None, log=None):
    """Run a tool under timeout and address-space limit.  Returns (rc, stdout, stderr, seconds)."""
    t0 = time.time()
    with _sem:
        try:
            p = subprocess.Popen(cmd, stdout=subprocess.PIPE, stderr=subprocess.PIPE, cwd=cwd, preexec_fn=_limits)
            try:
                out, err = p.communicate(timeout=timeout)
            except subprocess.TimeoutExpired:
                try:
                    os.killpg(p.pid, 9)
                except Exception:
                    p.kill()
                p.communicate()
                raise Undecided(f"timeout after {timeout}s: {' '.join(cmd[:6])} ...")
        finally:
            pass
    dt = time.time() - t0
    out = out.decode("utf-8", "replace"); err = err.decode("utf-8", "replace")
    if log:
        with open(log, "a") as f:
            f.write("$ " + " ".join(cmd) + f"\n# rc={p.returncode} {dt:.1f}s\n" + err[-4000:] + "\n")
    return p.returncode, out, err, dt


def classify(desc, prop_name, srcfile, g):
    """Obligation class: P property-grade, A auxiliary, L permitted loud stop, R reachability guard.
    Returns (cls, props, text)."""
    m = re.match(r"^P:([A-Z0-9,]+):\s*(.*)$", desc, re.S)
    if m:
        return "P", m.group(1).split(","), m.group(2)
    if desc.startswith("R:"):
        return "R", g.props, desc[2:].strip()
    if desc.startswith("L:"):
        return "L", g.props, desc[2:].strip()
    if desc.startswith("A:"):
        return "A", g.props, desc[2:].strip()
    if desc.startswith("Check ensures clause"):
        return "P", g.props, desc
    if desc.startswith("Check requires clause"):
        # call-site capture obligation of a replaced callee
        return "P", g.props, desc
    if desc.startswith("assertion ") and srcfile.startswith(REPO):
        # an assert() of /repo itself
        return g.repo_assert, g.props, desc
    if ".unwind." in prop_name or "unwinding assertion" in desc:
        return "A", g.props, desc
    if re.search(r"\.(pointer_dereference|bounds|pointer_arithmetic|pointer_primitives|overflow|"
                 r"array_bounds|pointer|division-by-zero|undefined-shift|memory-leak|precondition_instance)\.", "." + prop_name + ".") \
            or "dereference failure" in desc or "bounds" in desc or "region readable" in desc or "region writeable" in desc:
        return g.safety, g.props, desc
    return "A", g.props, desc


_srccache = {}


def clause_text(desc, f, line):
    """Name a DFCC ensures/requires obligation by the clause's own source text (the spec header line)."""
    try:
        if f not in _srccache:
            _srccache[f] = open(f).read().splitlines()
        src = _srccache[f][int(line) - 1].strip()
        kind = "ensures" if "ensures" in desc.split("clause")[0] else "requires(capture)"
        m = re.search(r"contract::(\w+)", desc)
        return f"{kind} {m.group(1) if m else ''}: {src}"
    except Exception:
        return desc


def symtab_functions(gb, log):
    rc, out, err, _ = run(["goto-instrument", "--list-goto-functions", gb], 120, log=log)
    names = set()
    # fall back to symbol table if the option is unsupported
    if rc != 0 or not out.strip():
        rc, out, err, _ = run(["goto-instrument", "--show-symbol-table", gb], 120, log=log)
        for m in re.finditer(r"^Symbol\.+: (\S+)", out, re.M):
            names.add(m.group(1))
        return names
    for line in out.splitlines():
        line = line.strip()
        if line and " " not in line:
            names.add(line)
    return names


def build_group(g, wd, log):
    """goto-cc + (dfcc) goto-instrument.  Returns path of the binary handed to cbmc."""
    os.makedirs(wd, exist_ok=True)
    srcs = []
    for s in g.sources:
        s = s.replace("$REPO", REPO).replace("$VERIF", ROOT)
        if not os.path.isabs(s):
            s = os.path.join(ROOT, s)
        if not os.path.exists(s):
            raise Undecided(f"extraction break: source file {s} missing")
        srcs.append(s)
    gb = os.path.join(wd, "a.gb")
    cmd = ["goto-cc"] + GOTO_FLAGS + [f"-D{d}" for d in g.defines] + g.extra_goto_flags + \
          ["--function", g.entry] + srcs + ["-o", gb]
    rc, out, err, _ = run(cmd, 300, log=log)
    if rc != 0 or not os.path.exists(gb):
        raise Undecided("extraction break: goto-cc failed: " + (err or out)[-1500:])
    if g.mode != "dfcc":
        return gb
    syms = None
    cmd = ["goto-instrument", "--dfcc", g.entry]
    if g.enforce:
        cmd += ["--enforce-contract", g.enforce]
    if g.replace:
        syms = symtab_syms(gb, log)
        for r in g.replace:
            callee = r.split("/")[0]
            if callee in syms:
                cmd += ["--replace-call-with-contract", r]
    if g.loops:
        lf = os.path.join(wd, "loops.json")
        gen_loop_contracts(g, gb, lf, log)
        cmd += ["--loop-contracts-file", lf]
    if g.loops or "apply_loop_contracts" in g.flags:
        cmd += ["--apply-loop-contracts"]
    for r in g.restrict_fp:
        cmd += ["--restrict-function-pointer", r]
    gb2 = os.path.join(wd, "b.gb")
    cmd += [gb, gb2]
    rc, out, err, _ = run(cmd, 600, log=log)
    if rc != 0 or not os.path.exists(gb2):
        raise Undecided("instrumentation failed (goto-instrument --dfcc): " + (err or out)[-2500:])
    return gb2


_symcache = {}


def symtab_syms(gb, log):
    rc, out, err, _ = run(["goto-instrument", "--show-symbol-table", gb], 120, log=log)
    names = set()
    for m in re.finditer(r"^Symbol\.+: (\S+)", out, re.M):
        names.add(m.group(1))
    return names


def gen_loop_contracts(g, gb, outpath, log):
    """loops spec (in /verif/loops/*.json) is keyed by function and an anchor regex matched against the
    source line of the loop head; loop ordinals and the symbol_map are generated from the binary."""
    spec = json.load(open(os.path.join(ROOT, g.loops)))
    rc, out, err, _ = run(["goto-instrument", "--show-loops", gb], 120, log=log)
    # "Loop f.0:\n  file /repo/... line N function f"
    loops = {}
    for m in re.finditer(r"Loop (\S+)\.(\d+):\s*\n\s*file (\S+) line (\d+) function (\S+)", out):
        loops.setdefault(m.group(1), []).append((int(m.group(2)), m.group(3), int(m.group(4))))
    rc, sout, err, _ = run(["goto-instrument", "--show-symbol-table", gb], 120, log=log)
    allsyms = re.findall(r"^Symbol\.+: (\S+)", sout, re.M)
    res = {"sources": spec.get("sources", []), "functions": []}
    for fn, lspecs in spec["functions"].items():
        if fn not in loops:
            raise Undecided(f"extraction break: function {fn} has no loops in the binary (renamed or restructured)")
        entry = {}
        names = set()
        for ls in lspecs:
            hits = []
            for (idx, f, line) in loops[fn]:
                try:
                    src = open(f).read().splitlines()[line - 1]
                except Exception:
                    src = ""
                if re.search(ls["anchor"], src):
                    hits.append(idx)
            if len(hits) != 1:
                raise Undecided(f"extraction break: loop anchor /{ls['anchor']}/ in {fn} matched {len(hits)} loops")
            c = {}
            for k in ("assigns", "invariants", "decreases"):
                if k in ls:
                    c[k] = ls[k]
            entry[str(hits[0])] = c
            names.update(n for n in ls.get("symbols", []) if n not in ls.get("symbols_full", {}))
            if ls.get("symbols_full"):
                c["_full"] = dict(ls["symbols_full"])      # per-loop explicit names (same identifier declared in two scopes)
        smap = []
        for n in sorted(names):
            cands = [s for s in allsyms if re.fullmatch(re.escape(fn) + r"(::\d+)*::" + re.escape(n), s)]
            if len(cands) != 1:
                raise Undecided(f"extraction break: symbol {n} in {fn} resolves to {cands}")
            smap.append(f"{n},{cands[0]}")
        fe = {fn: [{"loop_id": k, **v} for k, v in entry.items()]}
        # cbmc format: {"functions":[{"f":[{"loop_id":"0","assigns":...,"invariants":...,"decreases":...,"symbol_map":...}]}]}
        for item in fe[fn]:
            full = item.pop("_full", None) or {}
            for n, f in full.items():
                if f not in allsyms:
                    raise Undecided(f"extraction break: symbol {f} not in the binary")
            m = smap + [f"{n},{f}" for n, f in full.items()]
            if m:
                item["symbol_map"] = ";".join(m)
        res["functions"].append(fe)
    json.dump(res, open(outpath, "w"), indent=1)


def cbmc_flags(g):
    f = ["--json-ui", "--trace", "--no-malloc-may-fail", "--bounds-check", "--pointer-check", "--drop-unused-functions"]
    if g.unwind is not None:
        f += ["--unwind", str(g.unwind)]
        if not g.no_unwinding_assertions:
            f += ["--unwinding-assertions"]
    if g.unwindset:
        f += ["--unwindset", ",".join(f"{k}:{v}" for k, v in g.unwindset.items())]
        if g.unwind is None and not g.no_unwinding_assertions:
            f += ["--unwinding-assertions"]
    f += ["--object-bits", str(g.object_bits or 12)]
    return f + [x for x in g.flags if x != "apply_loop_contracts"]


def parse_cbmc_json(out):
    try:
        d = json.loads(out)
    except Exception:
        # try to salvage a truncated array
        raise Undecided("cbmc output is not JSON (crash / out of memory?): " + out[-400:])
    results, msgs, status = [], [], None
    for x in d:
        if "result" in x:
            results = x["result"]
        if "messageText" in x:
            msgs.append(x["messageText"])
        if "cProverStatus" in x:
            status = x["cProverStatus"]
        if "properties" in x:
            results = x["properties"]
    return results, msgs, status


def trace_inputs(trace):
    """Last assignment of every harness input variable (base name in_*) and ghost (vg_*) in the trace."""
    vals = {}
    for st in trace or []:
        if st.get("stepType") != "assignment":
            continue
        lhs = st.get("lhs", "")
        base = lhs.split("::")[-1] if "::" in lhs else lhs
        if not (base.startswith("in_") or base.startswith("vg_")):
            continue
        v = st.get("value", {})
        if "data" in v:
            vals[base] = v["data"]
        elif "elements" in v:
            try:
                vals[base] = [e.get("value", {}).get("data") for e in v["elements"]]
            except Exception:
                pass
        elif "members" in v:
            try:
                vals[base] = {m["name"]: m.get("value", {}).get("data") for m in v["members"]}
            except Exception:
                pass
    return vals


def run_group(g, wd):
    """Returns dict(group=..., obligations=[...], seconds=..., cmd=...).  Raises Undecided."""
    log = os.path.join(wd, "log.txt")
    os.makedirs(wd, exist_ok=True)
    open(log, "w").close()
    t0 = time.time()
    gb = build_group(g, wd, log)
    flags = cbmc_flags(g)
    obls = []
    cmdline = "cbmc " + " ".join(flags) + " <" + g.name + ".gb>"
    if not g.slice:
        rc, out, err, dt = run(["cbmc", gb] + flags, g.timeout, log=log)
        results, msgs, status = parse_cbmc_json(out)
        check_msgs(msgs, g)
        if status is None or (not results and status != "success"):
            raise Undecided(f"cbmc gave no verdict for group {g.name}: " + " | ".join(msgs[-4:]))
        runs = [(results, dt)]
    else:
        rc, out, err, dt = run(["cbmc", gb] + [f for f in flags if f != "--trace"] + ["--show-properties"], 300, log=log)
        props, msgs, _ = parse_cbmc_json(out)
        check_msgs(msgs, g)
        pnames, anames = [], []
        for p in props:
            cls, _, _ = classify(p.get("description", ""), p["name"], p.get("sourceLocation", {}).get("file", ""), g)
            (pnames if cls in ("P", "R") else anames).append(p["name"])
        k = g.slice if isinstance(g.slice, int) and not isinstance(g.slice, bool) else 1
        jobs = [pnames[i:i + k] for i in range(0, len(pnames), k)] + [anames[i:i + 60] for i in range(0, len(anames), 60)]
        runs = []

        def one(names):
            cmd = ["cbmc", gb] + flags + ["--slice-formula"]
            for n in names:
                cmd += ["--property", n]
            rc, out, err, dt = run(cmd, g.timeout, log=log)
            results, msgs, status = parse_cbmc_json(out)
            check_msgs(msgs, g)
            if status is None:
                raise Undecided(f"cbmc gave no verdict for {names[:2]} in {g.name}")
            return results, dt

        with ThreadPoolExecutor(max_workers=NCPU) as ex:
            for r in ex.map(one, jobs):
                runs.append(r)
    seen = {}
    for results, dt in runs:
        for r in results:
            name = r.get("property") or r.get("name")
            sl = r.get("sourceLocation", {})
            cls, props, text = classify(r.get("description", ""), name, sl.get("file", ""), g)
            if text.startswith("Check ensures clause") or text.startswith("Check requires clause"):
                text = clause_text(text, sl.get("file", ""), sl.get("line", ""))
            st = r.get("status")
            o = {"group": g.name, "name": name, "class": cls, "props": props, "text": text,
                 "status": st, "file": sl.get("file", ""), "line": sl.get("line", ""),
                 "function": sl.get("function", ""), "strength": g.strength}
            if st == "FAILURE":
                o["inputs"] = trace_inputs(r.get("trace"))
            if name in seen:
                # sliced runs: keep a FAILURE if any; a definite verdict overrides UNKNOWN
                if st == "FAILURE" or (st == "SUCCESS" and seen[name]["status"] not in ("FAILURE", "SUCCESS")):
                    seen[name].update(o)
                continue
            seen[name] = o
    obls = list(seen.values())
    return {"group": g, "obligations": obls, "seconds": time.time() - t0, "cmd": cmdline,
            "solver_s": sum(dt for _, dt in runs)}


def check_msgs(msgs, g):
    for m in msgs:
        if "ignoring forall" in m or "ignoring exists" in m:
            raise Undecided(f"{g.name}: quantifier ignored by back end: {m}")
        if "out of memory" in m.lower():
            raise Undecided(f"{g.name}: solver ran out of memory: {m}")
        if "Parse Error" in m:
            raise Undecided(f"{g.name}: solver parse error: {m}")
