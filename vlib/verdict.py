"""Verdicts, known findings, evidence and replay files."""
import json, os, re, sys, time, hashlib, shutil, traceback
from concurrent.futures import ThreadPoolExecutor
from . import core
from .core import Undecided, ROOT

KNOWN = os.path.join(ROOT, "known-findings.txt")
OUT = os.environ.get("VERIF_OUT", ROOT)   # scratch runs against another tree (seed testing) write elsewhere
REPLAY_OUT = os.path.join(OUT, "replay-out")


_replay_cache = {}


def load_known():
    known, fixed = [], []
    if os.path.exists(KNOWN):
        for line in open(KNOWN):
            line = line.strip()
            if not line or line.startswith("#"):
                continue
            m = re.match(r"^known:\s+property=(\S+)\s+obligation=(\S+)\s+::\s+(.*)$", line)
            if m:
                known.append({"prop": m.group(1), "obl": m.group(2), "what": m.group(3)})
                continue
            m = re.match(r"^fixed:\s+property=(\S+)\s+(\S+)\s+(.*)$", line)
            if m:
                fixed.append({"prop": m.group(1), "commit": m.group(2), "what": m.group(3)})
    return known, fixed


def obl_id(o):
    """Stable obligation identifier: group + sentence (not the cbmc ordinal, which shifts with edits)."""
    t = re.sub(r"\s+", "_", o["text"].strip())
    t = re.sub(r"[^A-Za-z0-9_.<>=!&|()\[\]+\-*/,:']", "", t)
    return f"{o['group']}/{t}"[:200]


def match_known(o, prop, known):
    oid = obl_id(o)
    for k in known:
        if k["prop"] == prop and re.fullmatch(k["obl"], oid):
            return k
    return None


def check_property(prop, groups, tier, replays, seed=0, only_group=None, keep=False):
    t0 = time.time()
    sel = [g for g in groups if prop in g.props and (tier == "thorough" or g.tier == "quick")]
    if only_group:
        sel = [g for g in groups if g.name == only_group]
    if not sel:
        print(f"no groups registered for {prop}")
        return 2
    wd_root = os.path.join(core.BUILD, f"{prop}-{os.getpid()}")
    shutil.rmtree(wd_root, ignore_errors=True)
    os.makedirs(wd_root, exist_ok=True)
    results, undecided = [], []

    def do(g):
        try:
            return core.run_group(g, os.path.join(wd_root, g.name))
        except Undecided as e:
            return ("undecided", g, str(e))
        except Exception as e:
            return ("undecided", g, "driver error: " + traceback.format_exc()[-1500:])

    with ThreadPoolExecutor(max_workers=8) as ex:
        for r in ex.map(do, sel):
            if isinstance(r, tuple):
                undecided.append((r[1], r[2]))
            else:
                results.append(r)

    known, fixed = load_known()
    violations, known_hits = [], []
    P_u, P_b, A_all, L_reach = [], [], [], []
    per_group = []
    for r in results:
        g = r["group"]
        obls = r["obligations"]
        mine = [o for o in obls if o["class"] != "P" or prop in o["props"]]
        R = [o for o in obls if o["class"] == "R"]
        if not R:
            undecided.append((g, "no reachability guard in harness (vacuity unchecked)"))
        vac = [o for o in R if o["status"] != "FAILURE"]
        if vac:
            undecided.append((g, "vacuity guard not reachable: " + "; ".join(o["text"] for o in vac)))
            continue
        Pm = [o for o in mine if o["class"] == "P"]
        if not Pm:
            undecided.append((g, f"group generated 0 property-grade obligations for {prop}"))
            continue
        pf = [o for o in Pm if o["status"] == "FAILURE"]
        punk = [o for o in Pm if o["status"] not in ("FAILURE", "SUCCESS")]
        af = [o for o in obls if o["class"] == "A" and o["status"] == "FAILURE"]
        for o in pf:
            k = match_known(o, prop, known)
            if k:
                known_hits.append((o, k))
            else:
                violations.append((g, o))
        if punk:
            undecided.append((g, "obligations without verdict: " + "; ".join(o["name"] for o in punk[:5])))
        if af and not pf:
            undecided.append((g, "auxiliary obligations fail (proof no longer goes through; this is not a refutation): "
                              + "; ".join(f"{o['name']} [{o['text'][:80]}] {o['file']}:{o['line']}" for o in af[:6])))
        (P_u if g.strength == "U" else P_b).extend(Pm)
        A_all.extend(o for o in obls if o["class"] == "A")
        L_reach.extend(o for o in obls if o["class"] == "L" and o["status"] == "FAILURE")
        per_group.append({"group": g.name, "strength": g.strength, "mode": g.mode, "entry": g.entry,
                          "P": len(Pm), "P_failed": len(pf), "A": len([o for o in obls if o['class'] == 'A']),
                          "A_failed": len(af), "seconds": round(r["seconds"], 1), "solver_s": round(r["solver_s"], 1),
                          "backend": g.backend, "frame_checked": g.frame_checked, "cmd": r["cmd"]})

    # ---- report
    rc = 0
    os.makedirs(REPLAY_OUT, exist_ok=True)
    printed = set()
    for o, k in known_hits:
        key = (k["obl"], k["what"])
        if key in printed:
            continue
        printed.add(key)
        print(f"KNOWN-FINDING: property={prop} {k['what']} [{obl_id(o)}]")
    vio_records = []
    shown = 0
    for g, o in violations:
        shown += 1
        if shown > 12:
            # the exit code and the evidence carry the total; keep the output and the replay directory readable
            if shown == 13:
                print(f"... {len(violations) - 12} further failing obligations of {prop} not listed (same run; see evidence/{prop}.json 'violations')")
            rc = 1
            continue
        rec = {"property": prop, "obligation": obl_id(o), "cbmc_property": o["name"], "sentence": o["text"],
               "group": g.name, "strength": g.strength, "location": f"{o['file']}:{o['line']} ({o['function']})",
               "counterexample_inputs": o.get("inputs", {}), "checker": "cbmc 6.11.0",
               "verifier_output": f"{o['name']}: FAILURE -- {o['text']}"}
        h = hashlib.sha1(obl_id(o).encode()).hexdigest()[:10]
        path = os.path.join(REPLAY_OUT, f"{prop}-{g.name}-{h}.json")
        confirmed = False
        fn = replays.get(g.replay) if g.replay else None
        if fn:
            try:
                # one native sweep per replay family and run (the sweep is scenario-family based, see vlib/replays.py);
                # templates that use the counterexample's own values (c16, c15) are re-run per obligation
                ck = g.replay if g.replay not in ("c16", "c15") else None
                if ck and ck in _replay_cache:
                    confirmed, detail = _replay_cache[ck]
                else:
                    confirmed, detail = fn(rec, os.path.join(wd_root, g.name))
                    if ck:
                        _replay_cache[ck] = (confirmed, detail)
                rec["native_replay"] = detail
            except Exception as e:
                rec["native_replay"] = {"error": traceback.format_exc()[-1200:]}
        rec["native_replay_confirmed"] = bool(confirmed)
        json.dump(rec, open(path, "w"), indent=1)
        tail = "" if confirmed else " no-failing-input-found"
        print(f"VIOLATION property={prop} replay={path} obligation={obl_id(o)}{tail}")
        vio_records.append(rec)
        rc = 1
    for g, why in undecided:
        print(f"UNDECIDED: property={prop} group={g.name}: {why}")
    if undecided and rc == 0:
        rc = 2

    # ---- evidence
    samples = []
    for o in (P_u + P_b)[:400]:
        samples.append({"obligation": obl_id(o), "status": o["status"], "strength": o["strength"],
                        "where": f"{os.path.relpath(o['file'], '/') if o['file'] else ''}:{o['line']}"})
    n_u = len(P_u); d_u = len([o for o in P_u if o["status"] == "SUCCESS"])
    n_b = len(P_b); d_b = len([o for o in P_b if o["status"] == "SUCCESS"])
    funcs, assumptions, glue = [], [], []
    for r in results:
        g = r["group"]
        for f in g.functions:
            if f not in funcs:
                funcs.append(f)
        for a in g.assumptions:
            if a not in assumptions:
                assumptions.append(a)
        for a in g.glue:
            if a not in glue:
                glue.append(a)
        if not g.frame_checked:
            a = f"group {g.name}: explicit harness, frame (assigns) not checked"
            if a not in assumptions:
                assumptions.append(a)
    from . import claims as _claims
    level = (_claims.CLAIMS.get(prop) or {}).get("category") or ("proof" if n_u > 0 else "other")
    if level == "proof" and n_u == 0:
        level = "other"
    cov = {
        "obligations": n_u, "discharged": d_u,
        "checker_cmd": "goto-cc (real /repo sources + /verif/spec contracts) | goto-instrument --dfcc --enforce-contract/--replace-call-with-contract (dfcc groups) | cbmc --bounds-check --pointer-check; per-group commands under 'groups'",
        "trusted_base": ["cbmc 6.11.0 (goto-cc, goto-instrument DFCC, minisat back end)", "env/ models of libc/OS/codec calls (see assumptions)",
                         "x86_64 little-endian data model of goto-cc"],
        "explanation": (f"{n_u} property-grade obligations checked unboundedly ({d_u} discharged); "
                        f"{n_b} bounded stand-in obligations ({d_b} passed), never counted as proved; "
                        f"{len(A_all)} auxiliary obligations (loop invariants, frames, memory safety, unwinding assertions)."),
        "functions_under_contract": funcs,
        "aux_obligations": len(A_all), "aux_failed": len([o for o in A_all if o["status"] == "FAILURE"]),
        "bounded_obligations": {"count": n_b, "passed": d_b,
                                "bounds": sorted({r["group"].name + ": " + r["group"].strength for r in results if r["group"].strength != "U"})},
        "paper_glue": glue,
        "loud_stops_reachable": sorted({f"{o['text']} @ {os.path.basename(o['file'])}:{o['line']}" for o in L_reach})[:60],
        "groups": per_group,
        "undecided": [f"{g.name}: {why}" for g, why in undecided],
        "known_findings": [f"{k['what']} [{obl_id(o)}]" for o, k in known_hits],
        "fixed_findings": [f"{f['commit']} {f['what']}" for f in fixed if f["prop"] == prop],
        "samples": samples if samples else ["(no obligations: every group undecided)"],
        "evaluations": max(1, n_u + n_b), "distinct_nontrivial": max(2, len({obl_id(o) for o in P_u + P_b})),
    }
    ev = {"property_id": prop, "tier": tier, "seed": int(seed), "level": level, "coverage": cov,
          "assumptions": assumptions, "wall_s": round(time.time() - t0, 2), "violations": len(violations)}
    os.makedirs(os.path.join(OUT, "evidence"), exist_ok=True)
    json.dump(ev, open(os.path.join(OUT, "evidence", f"{prop}.json"), "w"), indent=1)
    print(f"{prop}: {n_u} unbounded P obligations ({d_u} discharged), {n_b} bounded ({d_b} passed), "
          f"{len(A_all)} auxiliary, {len(known_hits)} known, {len(violations)} violations, "
          f"{len(undecided)} undecided groups, {time.time() - t0:.1f}s -> exit {rc}")
    if not keep:
        shutil.rmtree(wd_root, ignore_errors=True)
    return rc
