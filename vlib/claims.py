"""Per-property claim texts for MANIFEST.json (level, trusted base, deciding technique)."""
NA = {
 "C13": "quantifies over thread schedules (mutex/condvar interleavings, no hangs); function contracts are sequential and CBMC has no fairness / models pthread_cond_wait as an assumption, so neither exactly-once delivery under all schedules nor absence of hangs can be a contract obligation (DESIGN.md section 6)",
 "C14": "data-race freedom is a happens-before property over all concurrent executions; contracts have no notion of concurrent access (DESIGN.md section 6)",
}
CLAIMS = {
 "C16": dict(category="proof",
   text="Full-domain proof on the real mtbl/varint.c and mtbl/fixed.c: for every 32/64-bit value, encode->decode returns the value and byte count, count == mtbl_varint_length == mtbl_varint_length_packed, every byte equals the standard little-endian base-128 formula, nothing outside the n bytes is written; decoders and length_packed on arbitrary/truncated/over-long bytes; fixed codecs little-endian inverses at every alignment 0..7. Loops are width-bounded and unwound with unwinding assertions, so the result is complete, not bounded.",
   note="Trusted: cbmc 6.11 bit-precise semantics, x86_64 little-endian model (htole32 identity).",
   technique="explicit contract harness over symbolic full-domain inputs, cbmc SAT, width-bounded loops unwound with unwinding assertions"),
}
