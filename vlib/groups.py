"""Registry of verification groups.  Each group names the real /repo sources it compiles, the harness
entry, how contracts are checked (DFCC or explicit harness), its strength (U / B:<bound>) and what it assumes."""
from .core import Group

G = []

def add(*a, **k):
    G.append(Group(*a, **k))

A_LE = "x86_64 little-endian data model (htole32/le32toh are identities as goto-cc models them)"

# ---------------------------------------------------------------- C16 varint / fixed
for h in ("h_varint32", "h_varint64", "h_varint_decode_any", "h_fixed"):
    add(f"c16_{h[2:]}", ["C16"], ["tu/varint.c"], h, unwind=25, strength="U", timeout=120,
        functions=["mtbl_varint_length", "mtbl_varint_length_packed", "mtbl_varint_encode32", "mtbl_varint_encode64",
                   "_varint_decode", "mtbl_varint_decode32", "mtbl_varint_decode64", "mtbl_fixed_encode32",
                   "mtbl_fixed_encode64", "mtbl_fixed_decode32", "mtbl_fixed_decode64"],
        assumptions=[A_LE, "loops are width-bounded (<= 10 / <= 24 iterations): unwound with unwinding assertions, complete for the full 32/64-bit domain"],
        replay="c16")

# ---------------------------------------------------------------- C19 open arbitrary bytes
add("c19_reader_open", ["C19"], ["tu/reader_open.c", "$REPO/mtbl/metadata.c", "$REPO/mtbl/varint.c", "$REPO/mtbl/fixed.c",
    "$REPO/mtbl/source.c", "$REPO/mtbl/iter.c"], "h_reader_open",
    unwind=12, object_bits=10, safety="P", strength="U", timeout=900, slice=100, replay="c19",
    functions=["mtbl_reader_init", "mtbl_reader_init_fd", "reader_init_madvise", "metadata_read", "mtbl_varint_decode64",
               "mtbl_fixed_decode32", "mtbl_fixed_decode64", "block_init", "num_restarts", "mtbl_reader_destroy", "block_destroy",
               "mtbl_source_init", "mtbl_source_destroy"],
    assumptions=["fstat reports the true size; mmap returns exactly st_size readable bytes or MAP_FAILED (POSIX)",
                 "file size <= 2^40 bytes (object-bits 10 leaves 54 offset bits); content arbitrary; both format versions (magic symbolic)",
                 "mtbl_crc32c reads exactly [buf, buf+size) (its own contract, C17)", "allocation never fails (--no-malloc-may-fail; /repo asserts on it)",
                 "every in-function pointer/bounds check is property-grade here; assert() stops of /repo are permitted outcomes (L)"])

# ---------------------------------------------------------------- C20 write(2) fragmentation
A_WRITE = "POSIX write(2) contract: returns -1 (any errno) or 0..count bytes accepted, in order (env assumption)"
add("c20_write_all", ["C20"], ["tu/writer_wa.c"], "h_write_all", mode="dfcc", enforce="_write_all/_write_all__spec",
    replace=["write/write__spec", "fprintf/fprintf__spec", "strerror/strerror__spec"], loops="loops/writer_wa.json",
    unwind=8, strength="U", timeout=300,
    functions=["_write_all"], assumptions=[A_WRITE, "termination under endless EINTR is not claimed (no decreases clause)"],
    replay="c20")
add("c20_write_block_frag", ["C20", "C09", "C10", "C12"], ["tu/writer_frag.c", "$REPO/mtbl/varint.c"], "h_write_block_frag",
    unwind=12, strength="B: <= 2 fragmentation events (EINTR or short write of any length) per block, payload <= 8 bytes", timeout=300,
    functions=["_mtbl_writer_write_block", "_write_all", "mtbl_varint_encode64"], assumptions=[A_WRITE], replay="c20")
add("c20_write_block", ["C20", "C09", "C12"], ["tu/writer_dfcc.c", "$REPO/mtbl/varint.c"], "h_write_block", mode="dfcc",
    enforce="_mtbl_writer_write_block/_mtbl_writer_write_block__spec", replace=["_write_all/_write_all__cap"],
    unwind=12, strength="U", timeout=300,
    functions=["_mtbl_writer_write_block", "mtbl_varint_encode64"],
    assumptions=["_write_all is replaced by its capture contract (_write_all__cap); that it delivers the whole buffer is proved in group c20_write_all",
                 "block payload length 1 .. 2^40"])

# ---------------------------------------------------------------- writer induction steps (C08, C10, C09, C01, C12, C18, C20)
WR_STEP_FUNCS = ["mtbl_writer_add", "_mtbl_writer_flush", "_mtbl_writer_compress_block", "_mtbl_writer_write_data_block",
                 "_mtbl_writer_write_block", "_write_all", "_compress_block_wrapper", "_write_data_block_wrapper",
                 "bytes_compare", "bytes_shortest_separator", "ubuf_* (libmy/vector.h)", "mtbl_varint_encode64"]
WR_STEP_ASSUME = ["block builder replaced by its abstract contract (estimate grows by <= 15+len_key+len_val per add; finish size == estimate; reset empties) -- proved on the real builder in groups bb_*",
                  "mtbl_crc32c / mtbl_compress / metadata_write replaced by capturing stubs (their own contracts: C17, C15, md_*)",
                  "thread pool modelled by the synchronous in-order schedule (assumed contract of mtbl/threadpool.c: each job runs once, result delivered once, in order)",
                  "write(2) completes in full here (fragmentation: group c20_*)", "key length <= 4 bytes (buffers are the real ubuf code); value length free (never read by writer.c)",
                  "arbitrary initial state satisfying the writer invariant W => every history of earlier calls"]
add("wr_add_step", ["C08", "C10", "C09", "C01", "C02", "C12", "C20"], ["tu/writer_step.c", "$REPO/mtbl/varint.c"], "h_writer_add_step",
    unwind=12, strength="B: one mtbl_writer_add from an arbitrary writer state (all histories); key length <= 4", timeout=900, slice=3,
    functions=WR_STEP_FUNCS, assumptions=WR_STEP_ASSUME, replay="c08")
add("wr_close_step", ["C10", "C09", "C01", "C12", "C18", "C20"], ["tu/writer_step.c", "$REPO/mtbl/varint.c"], "h_writer_close_step",
    unwind=12, strength="B: mtbl_writer_destroy/_mtbl_writer_finish from an arbitrary writer state (all histories); key length <= 4", timeout=900,
    functions=["mtbl_writer_destroy", "_mtbl_writer_finish"] + WR_STEP_FUNCS[1:], assumptions=WR_STEP_ASSUME, replay="c10")
# ---------------------------------------------------------------- block builder steps + encoder/decoder inverse lemmas
BB_ASSUME = ["arbitrary builder state satisfying the builder invariant (counter <= interval, not finished) => every history",
             "sizes capped for the content-level check: key/value <= 4 bytes, <= 16 bytes already in the block, <= 3 restart points, no vector growth of the entry buffer (vector growth: group vec_*)",
             "x86_64 little-endian model"]
add("bb_add_step", ["C09", "C01", "C11"], ["tu/bb_step.c", "$REPO/mtbl/varint.c", "$REPO/mtbl/fixed.c"], "h_bb_add_step",
    unwind=7, strength="B: one block_builder_add from an arbitrary builder state; key/value <= 4 bytes, block prefix <= 16 bytes", timeout=900, slice=6,
    functions=["block_builder_add", "block_builder_current_size_estimate", "parse_next_key", "decode_entry", "mtbl_varint_encode32", "mtbl_varint_decode32", "ubuf_*"], replay="c08",
    assumptions=BB_ASSUME)
add("bb_finish_step", ["C09", "C01", "C11"], ["tu/bb_step.c", "$REPO/mtbl/varint.c", "$REPO/mtbl/fixed.c"], "h_bb_finish_step",
    unwind=7, strength="B: block_builder_finish/reset + block_init from an arbitrary builder state; <= 16 entry bytes, <= 3 restart points (32-bit restart regime)", timeout=900,
    functions=["block_builder_finish", "block_builder_reset", "block_builder_empty", "block_init", "block_iter_init", "num_restarts", "get_restart_point", "mtbl_fixed_encode32", "mtbl_fixed_decode32"],
    assumptions=BB_ASSUME)
# ---------------------------------------------------------------- reader induction steps (C03, C02, C01 walk, C11, C12, C18)
RD_FUNCS = ["reader_iter", "reader_iter_init", "reader_get", "reader_get_prefix", "reader_get_range", "reader_iter_seek", "reader_iter_next",
            "needs_index_seek", "get_block", "get_block_at_index", "reader_iter_free", "mtbl_iter_init", "mtbl_iter_destroy", "bytes_compare",
            "mtbl_varint_decode64", "mtbl_fixed_decode32"]
RD_ASSUME = ["mtbl/block.c replaced by its abstract contract (block = strictly increasing entries; block_iter_seek = lower bound; next/get/valid positional) -- checked on the real block.c in groups blk_*",
             "symbolic table: <= 3 data blocks x <= 3 entries, keys <= 2 bytes (empty key included), separators anywhere in [last key, next first key), v1 or v2 framing, any compression flag, verify on/off, damaged checksums",
             "arbitrary iterator state satisfying the representation invariant RI => every history of next/seek calls on that iterator",
             "mtbl_crc32c / mtbl_decompress replaced by capturing stubs (own contracts: C17, C15)"]
RD_SRC = ["tu/reader_step.c", "$REPO/mtbl/source.c", "$REPO/mtbl/varint.c", "$REPO/mtbl/fixed.c", "$REPO/mtbl/metadata.c"]
add("rd_seek_step", ["C03", "C02", "C01", "C11", "C12", "C18", "C05"], RD_SRC, "h_reader_seek_step", unwind=11, timeout=900, slice=4,
    strength="B: seek(k) then next x4 from an arbitrary iterator state over a symbolic table of <= 3 blocks x <= 3 entries, keys <= 2 bytes",
    functions=RD_FUNCS, assumptions=RD_ASSUME, replay="c03")
add("rd_next_step", ["C03", "C01", "C11", "C12", "C18"], RD_SRC, "h_reader_next_step", unwind=11, timeout=900, slice=4,
    strength="B: next x2 from an arbitrary iterator state over a symbolic table of <= 3 blocks x <= 3 entries, keys <= 2 bytes",
    functions=RD_FUNCS, assumptions=RD_ASSUME, replay="c03")
add("rd_lookup", ["C02", "C01", "C11", "C12", "C18", "C05"], RD_SRC, "h_reader_lookup", unwind=11, timeout=900, slice=4,
    strength="B: iter/get/get_prefix/get_range with symbolic queries, drained (<= 5 next), symbolic table of <= 3 blocks x <= 3 entries, keys <= 2 bytes",
    functions=RD_FUNCS, assumptions=RD_ASSUME, replay="c02")
# ---------------------------------------------------------------- block.c against the abstract block contract
BLK_ASSUME = ["block bytes come from an independent reference encoder inside the harness: <= 4 entries, keys <= 2 bytes (empty key included), 1-byte values, restart at any subset of entries, any legal amount of prefix sharing",
              "iterator state reached by init; [seek_to_first + <= 4 next | seek(k0) [+ next]] = every reachable state of a block iterator used by the reader"]
BLK_LAYOUTS = {   # {key length, shared, restart} per entry ; number of entries
    "r_all":   ("{ {1,0,1}, {2,0,1}, {2,0,1}, {2,0,1} }", 4),     # restart at every entry
    "r_one":   ("{ {0,0,1}, {1,0,0}, {2,1,0}, {2,1,0} }", 4),     # single restart, empty first key, maximal-ish sharing
    "r_mid":   ("{ {1,0,1}, {2,1,0}, {2,0,1}, {2,1,0} }", 4),     # restart in the middle
    "r_nomax": ("{ {2,0,1}, {2,0,0}, {2,1,0}, {2,0,1} }", 4),     # non-maximal sharing (0 where 1 would be possible)
    "r_three": ("{ {1,0,1}, {1,0,0}, {2,1,1}, {0,0,0} }", 3),     # 3 entries, last restart run of one
    "r_single":("{ {2,0,1}, {0,0,0}, {0,0,0}, {0,0,0} }", 1),     # single-entry block
}
BLK_PREP = {0: "fresh iterator", 1: "after seek_to_first + any number of next (running off the end included)", 2: "after an earlier seek(k0) [+ next]"}
for v, (lay, en) in BLK_LAYOUTS.items():
    for prep, ptxt in BLK_PREP.items():
        add(f"blk_seek_{v}_p{prep}", ["C02", "C03", "C11", "C01"], ["tu/blk_step.c", "$REPO/mtbl/varint.c", "$REPO/mtbl/fixed.c"], "h_blk_seek",
            unwind=6, unwindset={"block_iter_seek.0": 4, "block_iter_seek.1": 4, "block_iter_seek.2": 6, "parse_next_key.0": 5, "ubuf_reserve.0": 2, "vg_cmp.0": 3},
            timeout=900 if v in ("r_mid", "r_one") else 3000, tier="quick" if v in ("r_mid", "r_one") else "thorough",
            defines=["VG_LAYOUT=" + lay, "VG_EN=%d" % en, "VG_PREP=%d" % prep],
            strength=f"B: block_iter_seek(k) then next, iterator state: {ptxt}; independently encoded block with layout {lay} ({en} entries; key bytes, values, targets symbolic)",
            functions=["block_init", "block_iter_init", "block_iter_seek", "block_iter_next", "block_iter_get", "block_iter_valid", "block_iter_seek_to_first",
                       "parse_next_key", "decode_entry", "compare_restart_point", "get_restart_point", "seek_to_restart_point", "num_restarts"],
            assumptions=BLK_ASSUME)
add("blk_restart64", ["C11", "C02", "C03"], ["tu/blk_step.c", "$REPO/mtbl/varint.c", "$REPO/mtbl/fixed.c"], "h_blk_restart64", unwind=9, timeout=900, object_bits=10, slice=1,
    strength="U", functions=["block_init", "block_iter_init", "get_restart_point", "compare_restart_point", "seek_to_restart_point", "num_restarts", "decode_entry", "bytes_compare"],
    assumptions=["symbolic block of any size in (4 GiB, 1 TiB] with arbitrary content, 1..3 restart points; restart key <= 2 bytes with a one-byte header (content is arbitrary otherwise)"])
add("blk_decode_entry", ["C11", "C01"], ["tu/blk_step.c", "$REPO/mtbl/varint.c", "$REPO/mtbl/fixed.c"], "h_decode_entry", unwind=26, timeout=600,
    strength="U", functions=["decode_entry", "mtbl_varint_decode32"],
    assumptions=["all 24-byte contents and every available length 0..24; header numbers <= UINT32_MAX (well-formed file)"])
# ---------------------------------------------------------------- merger induction steps (C04, C05)
MG_FUNCS = ["merger_iter_next", "merger_iter_seek", "entry_fill", "_mtbl_merger_compare", "heap_peek", "heap_pop", "heap_replace", "heap_add", "heap_heapify", "heap_clip",
            "siftdown", "siftup", "bytes_compare", "ubuf_*"]
MG_ASSUME = ["sources: 2 user-defined iterators over symbolic strictly increasing arrays of <= 2 entries, keys of 0 or 1 byte (empty key included), buffers overwritten on every call",
             "arbitrary merger-iterator state satisfying invariant M (heap = next unconsumed entry of every live source, any valid heap arrangement; every entry passed over is <= the remembered key) => every history of next/seek, states after backward seeks included",
             "mtbl/iter.c's dispatchers (mtbl_iter_next/seek/destroy) modelled directly by the source iterators", "merge function = arbitrary results of length 0..2 checking the fold discipline (values identify their entry); no-merge mode with and without a dupsort function (arbitrary total preorder on values)"]
MG_SRC = ["tu/merger_step.c"]
MG_UW = {"siftdown.0": 2, "siftup.0": 2, "merger_iter_next.0": 4, "merger_iter_next.1": 6, "heap_heapify.0": 2, "ubuf_reserve.0": 2, "entry_vec_add.0": 2,
         "merger_iter_seek.0": 4, "merger_iter_seek.1": 4}
add("mg_next_step", ["C04", "C05", "C06"], MG_SRC, "h_merger_next_step", unwind=4, unwindset=MG_UW, timeout=900, slice=3,
    strength="B: one merger next from an arbitrary state; 2 sources x <= 2 entries, keys <= 1 byte (empty key included)", functions=MG_FUNCS, assumptions=MG_ASSUME, replay="c04")
add("mg_fail_step", ["C04", "C06"], MG_SRC, "h_merger_fail_step", unwind=4, unwindset=MG_UW, timeout=900,
    strength="B: one merger next with a failing merge function from an arbitrary state; 2 sources x <= 2 entries", functions=MG_FUNCS, assumptions=MG_ASSUME, replay="c04")
add("mg_seek_step", ["C05", "C04"], MG_SRC, "h_merger_seek_step", unwind=4, unwindset=MG_UW, timeout=900, slice=2,
    strength="B: merger seek(k) then next from an arbitrary state; 2 sources x <= 2 entries, keys <= 1 byte (empty key included)", functions=MG_FUNCS, assumptions=MG_ASSUME, replay="c04")
# ---------------------------------------------------------------- C15 compression wrappers
C15_ASSUME = ["codec libraries replaced by their documented contracts (zlib deflate/inflate/deflateBound/deflateInit level range -1..9; LZ4_compressBound / LZ4_compress_default / _HC / LZ4_decompress_safe; ZSTD_compressBound / compress / getFrameContentSize / decompress; snappy max_compressed_length / compress / uncompress): success iff capacity >= true size, true size within the documented bound and >= n/1032; content equality is the codec's contract",
              "input size any value <= 2^33 (above INT_MAX included), level any int, allocation never fails", "strcasecmp modelled by its definition"]
add("c15_roundtrip", ["C15", "C18"], ["tu/compression_step.c", "$REPO/mtbl/fixed.c"], "h_c15_roundtrip", unwind=26, timeout=600, repo_assert="P", slice=4,
    strength="U", functions=["mtbl_compress", "mtbl_compress_level", "mtbl_decompress", "_mtbl_compress_lz4", "_mtbl_compress_lz4hc", "_mtbl_compress_zstd", "_mtbl_compress_snappy",
                             "_mtbl_compress_zlib", "_mtbl_decompress_lz4", "_mtbl_decompress_zstd", "_mtbl_decompress_snappy", "_mtbl_decompress_zlib"],
    assumptions=C15_ASSUME + ["every assert() of compression.c is property-grade here (they never abort)"], replay="c15")
add("c15_names", ["C15"], ["tu/compression_step.c", "$REPO/mtbl/fixed.c"], "h_c15_names", unwind=18, timeout=300,
    strength="U", functions=["mtbl_compression_type_to_str", "mtbl_compression_type_from_str"], assumptions=["strcasecmp modelled by its definition; candidate strings of <= 7 characters"], replay="c15")
# ---------------------------------------------------------------- C17 CRC-32C
C17_SDM = "Intel SDM semantics of crc32b/w/l/q (accumulate the operand's little-endian bytes with the Castagnoli polynomial) as the contract of the four inline-asm helpers"
for h in ("t0", "tk", "linear", "bytestep", "step4"):
    add("c17_" + h, ["C17"], ["tu/crc.c"], "h_crc_" + h, unwind=10, timeout=600, strength="U", slice=1,
        functions=["g_crc_slicing[8][256] (the real tables)"], assumptions=["bitwise reference with polynomial 0x82F63B78 is the definition of CRC-32C (checked against the iSCSI check values in c17_vectors)"])
add("c17_vectors", ["C17"], ["tu/crc.c"], "h_crc_vectors", unwind=40, timeout=300, strength="U", functions=["my_crc32c_slicing"], assumptions=[])
C17_UW = {"my_crc32c_slicing.0": 5, "my_crc32c_slicing.1": 7, "my_crc32c_slicing.2": 9, "ref_step.0": 9, "my_crc32c_sse42.0": 7}
C17_GLUE = ["paper glue (GF(2) algebra, not machine-checked): both implementations only XOR table entries / crc32-instruction results indexed by (state xor data), which is affine in the data by the linearity lemma; agreement with the reference on a pattern and all its single-bit neighbours (c17_basis_*) therefore extends to all contents of that length"]
for pat in (0, 1, 2):
    add(f"c17_cross_slicing_p{pat}", ["C17"], ["tu/crc.c"], "h_crc_cross_slicing", unwind=60, unwindset=C17_UW, timeout=600, defines=[f"VG_PAT={pat}"],
        strength=f"B: every length 0..40, every start alignment, fixed content pattern {pat}", functions=["my_crc32c_slicing"], assumptions=[], glue=C17_GLUE)
    add(f"c17_cross_sse42_p{pat}", ["C17"], ["tu/crc.c"], "h_crc_cross_sse42", mode="dfcc", unwind=60, unwindset=C17_UW, timeout=600, defines=[f"VG_PAT={pat}"],
        replace=["my_asm_crc32_u64/my_asm_crc32_u64__spec", "my_asm_crc32_u32/my_asm_crc32_u32__spec", "my_asm_crc32_u16/my_asm_crc32_u16__spec", "my_asm_crc32_u8/my_asm_crc32_u8__spec"],
        strength=f"B: every length 0..40, every start alignment, fixed content pattern {pat}", functions=["my_crc32c_sse42", "my_crc32c_slicing"], assumptions=[C17_SDM], glue=C17_GLUE, frame_checked=False)
add("c17_basis_slicing", ["C17"], ["tu/crc.c"], "h_crc_cross_slicing", unwind=60, unwindset=C17_UW, timeout=3000, defines=["VG_PAT=0", "VG_BASIS"], tier="thorough",
    strength="B: every length 0..40, every start alignment, pattern 0 with any single bit flipped (affine basis)", functions=["my_crc32c_slicing"], assumptions=[], glue=C17_GLUE)
add("c17_basis_sse42", ["C17"], ["tu/crc.c"], "h_crc_cross_sse42", mode="dfcc", unwind=60, unwindset=C17_UW, timeout=3000, defines=["VG_PAT=0", "VG_BASIS"], tier="thorough",
    replace=["my_asm_crc32_u64/my_asm_crc32_u64__spec", "my_asm_crc32_u32/my_asm_crc32_u32__spec", "my_asm_crc32_u16/my_asm_crc32_u16__spec", "my_asm_crc32_u8/my_asm_crc32_u8__spec"],
    strength="B: every length 0..40, every start alignment, pattern 0 with any single bit flipped (affine basis)", functions=["my_crc32c_sse42"], assumptions=[C17_SDM], glue=C17_GLUE, frame_checked=False)
# dispatch: my_crc32c_runtime_detection selects one of the two; mtbl_crc32c forwards unchanged
add("c17_dispatch", ["C17", "C14"], ["tu/crc_dispatch.c"], "h_crc_dispatch", unwind=4, timeout=120, strength="U",
    functions=["my_crc32c_runtime_detection", "my_crc32c_first", "mtbl_crc32c"], assumptions=["cpuid result is arbitrary (either implementation may be selected)"])
# ---------------------------------------------------------------- C07 fileset induction steps
FS_FUNCS = ["mtbl_fileset_reload", "mtbl_fileset_reload_now", "fs_reinit_merger", "fileset_source_iter", "fileset_source_get", "fileset_source_get_prefix",
            "fileset_source_get_range", "fileset_iter_init", "fileset_iter_free"]
FS_ASSUME = ["libmy/my_fileset.c replaced by its contract with a ghost generation number (reload either changes nothing or loads/unloads readers and bumps the generation) -- the setfile parsing itself is checked in group myfs_reload (bounded)",
             "monotonic clock strictly increasing; shared timestamps come from that clock", "merger / reader / iterator objects are recording stubs",
             "arbitrary shared state and handle states satisfying H (handle timestamp == shared timestamp => merger built from the current reader set with the handle's filters) => every history of reloads, dups and iterator opens/closes"]
for h in ("reload", "reload_now", "iter"):
    add("fs_" + h + "_step", ["C07", "C18"], ["tu/fileset_step.c"], "h_fileset_" + h + "_step", unwind=5, timeout=600,
        strength="B: <= 3 entries in the reader set; arbitrary handle/shared state (all histories)", functions=FS_FUNCS, assumptions=FS_ASSUME, replay="c07")
# ---------------------------------------------------------------- C06 / C18 sorter induction steps
SO_FUNCS = ["mtbl_sorter_add", "_mtbl_sorter_flush", "_mtbl_sorter_get_entry_batch", "_mtbl_sorter_write_chunk", "_mtbl_sorter_compare", "mtbl_sorter_iter",
            "mtbl_sorter_write", "mtbl_sorter_destroy", "_write_temp_file_wrapper", "_collect_readers_cb", "bytes_compare", "ubuf_*"]
SO_ASSUME = ["writer / reader / merger / iterators are recording stubs (the writer refuses non-increasing keys, C08); thread pool = synchronous delivery, destroy may deliver one in-flight result (assumed contract of mtbl/threadpool.c)",
             "mkstemp/unlink/close/getpid/sprintf modelled with descriptor and temp-file accounting; qsort modelled by insertion sort over the caller's comparator (ISO C contract: sorted permutation)",
             "<= 3 entries per chunk, keys <= 2 bytes (empty key and proper prefixes included), 2-byte values that identify their entry; arbitrary sorter state"]
SO_UW = {"strlen.0": 20, "sprintf.0": 20, "mkstemp.0": 34, "unlink.0": 34, "memcpy.0": 40}
SO_SRC = ["tu/sorter_step.c"]
for nm, (n, lks, tier) in {"dup11": (2, "{1,1,0}", "quick"), "prefix12": (2, "{1,2,0}", "quick"), "single0": (1, "{0,0,0}", "quick"), "three": (3, "{1,1,1}", "thorough"), "mixed": (3, "{0,1,2}", "thorough")}.items():
    add("so_chunk_" + nm, ["C06", "C18"], SO_SRC, "h_sorter_chunk_step", unwind=6, unwindset=SO_UW, timeout=1200, tier=tier,
        defines=[f"VG_CHUNK_N={n}", "VG_CHUNK_LKS=" + lks],
        strength=f"B: one chunk of {n} entries with key lengths {lks} (key and value bytes symbolic: equal keys, proper prefixes, any order); merge function may fail", functions=SO_FUNCS, assumptions=SO_ASSUME, replay="c18")
for ne in (0, 1):
    add(f"so_add_ne{ne}", ["C06"], SO_SRC, "h_sorter_add_step", unwind=6, unwindset=SO_UW, timeout=900, defines=[f"VG_ADD_NE={ne}"],
        strength=f"B: one mtbl_sorter_add on a sorter holding {ne} buffered entries; key length 0..2; any memory limit; iterating or not", functions=SO_FUNCS, assumptions=SO_ASSUME, replay="c06")
    add(f"so_iter_ne{ne}", ["C06"], SO_SRC, "h_sorter_iter_step", unwind=6, unwindset=SO_UW, timeout=900, defines=[f"VG_ITER_NE={ne}"],
        strength=f"B: mtbl_sorter_iter on a sorter with {ne} buffered entries and <= 2 chunk readers, pooled or not", functions=SO_FUNCS, assumptions=SO_ASSUME, replay="c06")
add("so_destroy_step", ["C18"], SO_SRC, "h_sorter_destroy_step", unwind=6, timeout=600, safety="P",
    strength="B: mtbl_sorter_destroy with <= 2 buffered entries, <= 2 readers, possibly one chunk job still in flight", functions=SO_FUNCS, assumptions=SO_ASSUME, replay="c18")
# ---------------------------------------------------------------- libmy/my_fileset.c reload (bounded)
# the variants without the growth cut point ("myfs_reload_grow2/3": real vector growth, realloc by its ISO C contract) did not finish in 40 minutes and are not registered (DESIGN.md section 10)
for nm, nl, tier, cut in (("myfs_reload_step", 2, "quick", True),):
    add(nm, ["C07", "C18"], ["tu/myfs_step.c"], "h_myfs_reload_step", unwind=10, timeout=900 if cut else 6000, slice=4, tier=tier, defines=[f"VG_MYFS_LINES={nl}"] + (["VG_MYFS_CUT"] if cut else []),
        strength=f"B: my_fileset_reload from an arbitrary loaded set of <= 2 of 3 one-letter tables, setfile of <= {nl} distinct lines, each table present or missing; " + ("resulting set of at most ONE entry (vector growth is a cut point)" if cut else "the new set grows through the real vector code (realloc by its ISO C contract)"),
        functions=["my_fileset_reload", "setfile_updated", "fetch_entry", "cmp_fileset_entry", "path_exists", "my_fileset_get", "ubuf_add_cstr", "ubuf_rstrip", "ubuf_cstr"] + ([] if cut else ["entry_vec_add (growth)"]),
        assumptions=["stat / fopen / getline / fclose / dirname modelled (POSIX); bsearch and qsort modelled by their contracts over the caller's comparator", "names are one letter in directory d; setfile changes are detected by inode/mtime (as the code does); duplicate setfile lines are outside the bound"])
# ---------------------------------------------------------------- mtbl_verify sweep
add("vf_sweep", ["C12", "C18"], ["tu/verify_step.c", "$REPO/mtbl/varint.c", "$REPO/mtbl/fixed.c"], "h_verify_sweep", unwind=12, timeout=600,
    strength="B: verify_data_blocks over a symbolic file of 1..3 data blocks (6-byte payloads), v1/v2 framing, any subset of blocks damaged; trailer counts true",
    functions=["verify_data_blocks", "mtbl_varint_decode64", "mtbl_fixed_decode32"], assumptions=["mmap returns the file's bytes; progress output (printf) not modelled"])
# ---------------------------------------------------------------- metadata trailer, writer creation
add("md_roundtrip", ["C10", "C09", "C01", "C11", "C19"], ["tu/metadata_step.c", "$REPO/mtbl/fixed.c"], "h_metadata", unwind=440, timeout=300, strength="U",
    functions=["metadata_write", "metadata_read", "mtbl_metadata_* (ten accessors)", "mtbl_fixed_encode64", "mtbl_fixed_decode64"], assumptions=["x86_64 little-endian model"])
add("wr_init", ["C08", "C18", "C10", "C09"], ["tu/writer_init.c", "$REPO/mtbl/varint.c"], "h_writer_init", unwind=6, timeout=300, strength="U",
    functions=["mtbl_writer_init", "mtbl_writer_init_fd", "mtbl_writer_destroy"],
    assumptions=["POSIX open: with O_CREAT|O_EXCL an existing path fails with EEXIST and is left untouched; dup/lseek/close modelled; block builder creation stubbed (counts)", "ubuf_init(256) real"])
add("bytes_compare", ["C02", "C08", "C03", "C04", "C09"], ["tu/bytes_compare.c"], "h_bytes_compare", mode="dfcc", enforce="bytes_compare/bytes_compare__spec",
    replace=["memcmp/memcmp__spec"], unwind=8, timeout=300, strength="U", functions=["bytes_compare"],
    assumptions=["memcmp replaced by its ISO C contract in witness form (first differing byte decides, as unsigned char)"])
add("blk_seek_dfcc", ["C02", "C03", "C11"], ["tu/blk_seek_dfcc.c"], "h_blk_seek_dfcc", mode="dfcc", enforce="block_iter_seek/block_iter_seek__spec",
    replace=["compare_restart_point/compare_restart_point__spec", "seek_to_restart_point/seek_to_restart_point__spec", "parse_next_key/parse_next_key__spec", "bytes_compare/bytes_compare__cur"],
    loops="loops/blk_seek.json", unwind=8, timeout=600, strength="U", functions=["block_iter_seek (restart search: galloping + binary search)"],
    assumptions=["restart keys are sorted (well-formed block): compare_restart_point(i) < 0 exactly for i below a ghost boundary; its own correctness: groups blk_seek_* / blk_restart64",
                 "the linear scan after the restart search and the current-entry comparison are covered by blk_seek_* (bounded)", "up to 2^31-1 restart points"])
# ---------------------------------------------------------------- merger lookups, source_write, mtbl_dump filters
add("mg_lookup", ["C05", "C04", "C18"], ["tu/merger_lookup.c"], "h_merger_lookup", unwind=5, timeout=600,
    strength="B: merger_iter / merger_get / get_prefix / get_range over <= 2 sources; paths on which two sources yield an entry end at the heap's growth (cut point)",
    functions=["merger_iter", "merger_get", "merger_get_prefix", "merger_get_range", "merger_iter_init", "merger_iter_add_entry", "merger_iter_free", "entry_fill", "heap_push", "heap_init"],
    assumptions=["per-source lookups are recording stubs that may yield no iterator or an iterator without entries"])
add("src_write", ["C04", "C18"], ["tu/source_write.c"], "h_source_write", unwind=6, timeout=300,
    strength="B: mtbl_source_write over an iterator of <= 4 entries, writer refusing at any position", functions=["mtbl_source_write", "mtbl_source_init", "mtbl_source_iter"], assumptions=["iterator and writer are recording stubs"])
add("dump_filter", ["C01", "C18"], ["tu/dump_step.c"], "h_dump_filter", unwind=5, timeout=300,
    strength="B: mtbl_dump's dump() over <= 3 symbolic entries (keys/values <= 2 bytes), any prefixes <= 2 bytes, any minimum lengths, silent/hex flags",
    functions=["dump (src/mtbl_dump.c)", "print_string", "print_hex_string"], assumptions=["reader/iterator stubbed; stdout functions count lines (escaping/hex formatting not checked)"])
# ---------------------------------------------------------------- libmy/vector.h growth (the part cut off elsewhere, R12)
add("vec_step", ["C01", "C09"], ["tu/vector_step.c"], "h_vector_step", unwind=8, timeout=600,
    strength="B: one vector operation (append / reserve+advance / add / clip / reset / detach) from an arbitrary state with capacity <= 4, <= 6 new bytes (several doublings)",
    functions=["ubuf_append", "ubuf_reserve", "ubuf_advance", "ubuf_add", "ubuf_clip", "ubuf_reset", "ubuf_detach", "ubuf_destroy (libmy/vector.h)"],
    assumptions=["realloc: CBMC's built-in model (ISO C: content preserved up to the smaller size)"])
# ---------------------------------------------------------------- thorough-tier variants with larger caps
add("wr_add_step_k8", ["C08", "C10", "C09", "C01", "C02", "C12", "C20"], ["tu/writer_step.c", "$REPO/mtbl/varint.c"], "h_writer_add_step",
    unwind=20, defines=["VG_KMAX=8"], strength="B: one mtbl_writer_add from an arbitrary writer state (all histories); key length <= 8", timeout=3000, slice=3, tier="thorough",
    functions=WR_STEP_FUNCS, assumptions=WR_STEP_ASSUME, replay="c08")
add("wr_add_dfcc", ["C08", "C10", "C09", "C01"], ["tu/writer_add_dfcc.c"], "h_writer_add_dfcc", mode="dfcc", enforce="mtbl_writer_add/mtbl_writer_add__spec",
    replace=["bytes_compare/bytes_compare__cap", "block_builder_current_size_estimate/block_builder_current_size_estimate__cap", "bytes_shortest_separator/bytes_shortest_separator__cap",
             "_mtbl_writer_flush/_mtbl_writer_flush__cap", "ubuf_reset/ubuf_reset__cap", "ubuf_append/ubuf_append__cap", "block_builder_add/block_builder_add__cap"],
    unwind=40, timeout=600, strength="U", functions=["mtbl_writer_add"], slice=1,
    assumptions=["callees replaced by capture contracts: bytes_compare (own proof: group bytes_compare), size estimate, separator, flush, ubuf_reset/append, block_builder_add (checked in wr_add_step / bb_* / vec_step)",
                 "keys and values of any length below 2^60; counters below 2^62 (no wrap)"])
RD_DFCC_REPL = ["get_block/get_block__spec", "mtbl_varint_decode64/mtbl_varint_decode64__spec", "block_iter_get/block_iter_get__spec", "block_iter_next/block_iter_next__spec",
                "block_iter_seek/block_iter_seek__spec", "block_iter_seek_to_first/block_iter_seek_to_first__spec", "block_iter_init/block_iter_init__spec",
                "block_destroy/block_destroy__spec", "block_iter_destroy/block_iter_destroy__spec", "bytes_compare/bytes_compare__any", "memcmp/memcmp__any"]
for fn in ("next", "seek"):
    add(f"rd_{fn}_dfcc", ["C03"], ["tu/reader_dfcc.c"], f"h_reader_{fn}_dfcc", mode="dfcc", enforce=f"reader_iter_{fn}/reader_iter_{fn}__spec", replace=RD_DFCC_REPL,
        unwind=12, timeout=600, strength="U", functions=[f"reader_iter_{fn}", "get_block_at_index", "needs_index_seek"],
        assumptions=["mtbl/block.c functions and get_block replaced by contracts; get_block's contract records (block, offset) in ghosts; any table, any contents, any iterator kind"])
add("fs_dup_destroy", ["C07", "C18"], ["tu/fileset_step.c"], "h_fileset_dup_destroy", unwind=5, timeout=600, safety="P",
    strength="B: dup of an arbitrary handle, first reload of the dup, destruction of both handles in either order; <= 3 entries in the reader set",
    functions=["mtbl_fileset_dup", "mtbl_fileset_set_options", "mtbl_fileset_destroy", "mtbl_fileset_reload", "fs_reinit_merger"], assumptions=FS_ASSUME + ["memory-safety checks are property-grade here (no use of the shared state after it is freed)"], replay="c07")
add("sep_dfcc", ["C09", "C02", "C01"], ["tu/sep_dfcc.c"], "h_sep_dfcc", mode="dfcc", enforce="bytes_shortest_separator/bytes_shortest_separator__spec",
    replace=["bytes_compare/bytes_compare__any"], loops="loops/sep.json", unwind=8, timeout=600, strength="U", functions=["bytes_shortest_separator"],
    assumptions=["keys of any length <= 2^40; the closing assert(bytes_compare(start, limit) < 0) is a permitted loud stop here (that it cannot fire follows from E1-E3 and the definition of the order; confirmed with the real comparator for keys <= 4 bytes in wr_add_step)",
                 "glue (definition of the bytewise order): each of E1 (with start < limit at the call site), E2, E3 is a key k with start <= k < limit"])
# ---------------------------------------------------------------- C20 at module level: faults anywhere during add / close
for h in ("add", "close"):
    add(f"wr_{h}_fault", ["C20", "C10", "C09"], ["tu/writer_step.c", "$REPO/mtbl/varint.c"], f"h_writer_{h}_fault", unwind=12, unwindset={"_write_all.0": 4}, defines=["VG_WRITE_FAULTS=1"], timeout=900,
        strength=f"B: one mtbl_writer_{'add' if h == 'add' else 'destroy (no pending data block: index block + trailer writes)'} from an arbitrary writer state with one write(2) fault event (EINTR, short write accepting one byte, hard error) placed anywhere; key length <= 4",
        functions=WR_STEP_FUNCS + (["mtbl_writer_destroy", "_mtbl_writer_finish"] if h == "close" else []), assumptions=WR_STEP_ASSUME[:3] + ["POSIX write(2): -1 with an errno, or 1..count bytes accepted"], replay="c20")
# ---------------------------------------------------------------- libmy/heap.c on its own (heaps larger than the merger harnesses reach)
for op, nm, hn, tier in ((0, "push", 8, "quick"), (1, "pop", 8, "quick"), (2, "replace", 8, "quick"), (3, "heapify", 6, "quick"), (3, "heapify8", 8, "thorough"), (4, "misc", 8, "quick")):
    add("heap_" + nm, ["C04", "C05", "C06"], ["tu/heap_step.c"], "h_heap_step", unwind=12, timeout=900, defines=[f"VG_HOP={op}", f"VG_HN={hn}"], tier=tier,
        strength=f"B: heap operation '{nm}' from an arbitrary valid heap (heapify: arbitrary array) of <= {hn} elements with symbolic keys, ties included",
        functions=["siftup", "siftdown", "heap_push", "heap_pop", "heap_replace", "heap_heapify", "heap_peek", "heap_get", "heap_size", "heap_add", "heap_clip", "heap_reset"],
        assumptions=["comparator = total preorder on symbolic int keys (the merger's comparator is a total preorder on keys: group bytes_compare)", "ptrvec growth cut; growth: group vec_step",
                     "slot i holds item i (any arrangement of distinct items is this one up to renaming)"])
# ---------------------------------------------------------------- writer sessions through the public interface only (robust to internal reorganisation)
for nm, na, tier in (("wr_session", 2, "quick"), ("wr_session3", 3, "thorough")):
    add(nm, ["C10", "C01", "C09", "C08", "C18"], ["tu/writer_session.c", "$REPO/mtbl/varint.c"], "h_writer_session", unwind=12, timeout=1500, slice=2, tier=tier, defines=[f"VG_ADDS={na}"],
        strength=f"B: sessions mtbl_writer_init_fd (any start offset, pooled or not) + <= {na} mtbl_writer_add (symbolic keys <= 4 bytes, accepted or refused, any block size) + mtbl_writer_destroy; compression none",
        functions=["mtbl_writer_init_fd", "mtbl_writer_add", "mtbl_writer_destroy", "_mtbl_writer_finish"] + WR_STEP_FUNCS[1:], assumptions=WR_STEP_ASSUME[:4] + ["dup/lseek modelled (POSIX)"], replay="c10")
add("bb_add_dfcc", ["C09", "C01", "C11"], ["tu/bb_add_dfcc.c"], "h_bb_add_dfcc", mode="dfcc", enforce="block_builder_add/block_builder_add__spec",
    replace=["uint64_vec_add/uint64_vec_add__cap", "ubuf_reserve/ubuf_reserve__cap", "ubuf_advance/ubuf_advance__cap", "mtbl_varint_encode32/mtbl_varint_encode32__cap", "memcpy/memcpy__cap",
             "ubuf_reset/ubuf_reset__cap", "ubuf_append/ubuf_append__cap"],
    loops="loops/bb_add.json", unwind=16, timeout=900, slice=1, strength="U", functions=["block_builder_add"],
    assumptions=["vector operations (reserve / advance / reset / append / add), mtbl_varint_encode32 and memcpy replaced by capture contracts (their own checks: vec_step, c16_*, ISO C); key and value lengths <= UINT32_MAX (the header numbers are 32-bit varints)",
                 "byte-level layout of the encoded entry is the bounded obligation of bb_add_step (real decoder)"])
add("vf_file", ["C12", "C18"], ["tu/verify_step.c", "$REPO/mtbl/varint.c", "$REPO/mtbl/fixed.c"], "h_verify_file", unwind=12, timeout=600,
    strength="B: verify_file over a symbolic file of 1..2 data blocks (6-byte payloads), v1/v2 framing, any subset of data blocks and/or the index block damaged, open / reader failures",
    functions=["verify_file", "verify_data_blocks"], assumptions=["reader stub carries the reader's contract (with verify_checksums a damaged index block stops the process at open: groups c19_reader_open, rd_*); trailer true (C10)", "mmap returns the file's bytes; printf counts verdict lines"])
add("info_print", ["C10"], ["tu/info_step.c"], "h_info_print", unwind=14, timeout=600, slice=4, strength="U",
    functions=["print_info (src/mtbl_info.c)"], assumptions=["reader / metadata accessors stubbed with arbitrary 64-bit values (their own checks: md_roundtrip); libc number formatting (%' grouping, percentages) not modelled"])
add("merge_tool", ["C04", "C18"], ["tu/merge_tool.c"], "h_merge_tool", unwind=6, timeout=300, repo_assert="L",
    strength="B: src/mtbl_merge.c merge() over a merger iterator of <= 4 entries, the writer refusing at any position", functions=["merge (src/mtbl_merge.c)"], assumptions=["merger, iterator and writer are recording stubs (their own checks: mg_*, wr_*)"])
add("merge_tool_func", ["C04"], ["tu/merge_tool.c"], "h_merge_func", unwind=6, timeout=300, strength="U", functions=["merge_func (src/mtbl_merge.c)"], assumptions=[])
add("bb_finish_dfcc", ["C09", "C11", "C01"], ["tu/bb_finish_dfcc.c"], "h_bb_finish_dfcc", mode="dfcc", enforce="block_builder_finish/block_builder_finish__spec",
    replace=["mtbl_fixed_encode32/mtbl_fixed_encode32__cap", "mtbl_fixed_encode64/mtbl_fixed_encode64__cap", "ubuf_advance/ubuf_advance__cap", "ubuf_reserve/ubuf_reserve__cap", "ubuf_detach/ubuf_detach__cap"],
    loops="loops/bb_finish.json", unwind=16, timeout=900, slice=1, strength="U", functions=["block_builder_finish", "block_builder_current_size_estimate"],
    assumptions=["fixed-width encoders and vector operations replaced by capture contracts (own checks: c16_fixed, vec_step); up to 2^28 restart points, up to 2^50 bytes of entries (both restart-array regimes)",
                 "builder invariant assumed: every restart offset lies inside the entry bytes (established by block_builder_add: group bb_add_dfcc records the offset == current size)"])
add("so_add_dfcc", ["C06"], ["tu/sorter_add_dfcc.c"], "h_sorter_add_dfcc", mode="dfcc", enforce="mtbl_sorter_add/mtbl_sorter_add__spec",
    replace=["my_malloc/my_malloc__cap", "memcpy/memcpy__cap", "entry_vec_append/entry_vec_append__cap", "_mtbl_sorter_flush/_mtbl_sorter_flush__cap"],
    unwind=16, timeout=900, slice=1, strength="U", functions=["mtbl_sorter_add"],
    assumptions=["allocation, memcpy, the vector append and _mtbl_sorter_flush replaced by capture contracts (flush / chunk writing: groups so_chunk_*, so_add_ne*); key and value lengths <= UINT_MAX (larger ones stop at the function's own assert)",
                 "the spill rule is stated over the batch after the add: entry bytes + pointer vector bytes >= memory limit"])
# ---------------------------------------------------------------- block-level half of writer.c under DFCC (any sizes)
WB_ASSUME = ["callees replaced by capture contracts, one ghost record per callee (write_block: c20_write_block; builders: bb_*_dfcc; checksum C17; codecs C15; metadata_write: md_roundtrip; _write_all: c20_write_all)", "offsets and counters below 2^60 (no wrap)"]
add("wr_datablock_dfcc", ["C10", "C09", "C01", "C18"], ["tu/writer_blk_dfcc.c", "$REPO/mtbl/varint.c"], "h_write_data_block_dfcc", mode="dfcc", enforce="_mtbl_writer_write_data_block/_mtbl_writer_write_data_block__spec",
    replace=["_mtbl_writer_write_block/_mtbl_writer_write_block__cap", "block_builder_add/block_builder_add__cap", "free/free__cap"], unwind=16, timeout=900, slice=1, strength="U",
    functions=["_mtbl_writer_write_data_block", "mtbl_varint_encode64"], assumptions=WB_ASSUME)
add("wr_compress_dfcc", ["C12", "C09", "C01"], ["tu/writer_blk_dfcc.c", "$REPO/mtbl/varint.c"], "h_compress_block_dfcc", mode="dfcc", enforce="_mtbl_writer_compress_block/_mtbl_writer_compress_block__spec",
    replace=["mtbl_compress/mtbl_compress__cap", "mtbl_compress_level/mtbl_compress_level__cap", "mtbl_crc32c/mtbl_crc32c__cap", "free/free__cap"], unwind=16, timeout=900, slice=1, strength="U",
    functions=["_mtbl_writer_compress_block"], assumptions=WB_ASSUME + ["the codec reports success (failure stops at the function's assert: permitted loud stop)"])
add("wr_finish_dfcc", ["C10", "C09", "C12", "C01", "C18", "C20"], ["tu/writer_blk_dfcc.c", "$REPO/mtbl/varint.c"], "h_finish_dfcc", mode="dfcc", enforce="_mtbl_writer_finish/_mtbl_writer_finish__spec",
    replace=["_mtbl_writer_flush/_mtbl_writer_flush__cap", "result_handler_destroy/result_handler_destroy__cap", "block_builder_finish/block_builder_finish__cap", "block_builder_reset/block_builder_reset__cap",
             "mtbl_crc32c/mtbl_crc32c__cap", "_mtbl_writer_write_block/_mtbl_writer_write_block__cap", "metadata_write/metadata_write__cap", "_write_all/_write_all__cap2", "free/free__cap"],
    unwind=24, timeout=900, slice=1, strength="U", functions=["_mtbl_writer_finish"], assumptions=WB_ASSUME)
add("wr_flush_dfcc", ["C09", "C10", "C01", "C12"], ["tu/writer_blk_dfcc.c", "$REPO/mtbl/varint.c"], "h_flush_dfcc", mode="dfcc", enforce="_mtbl_writer_flush/_mtbl_writer_flush__spec",
    replace=["block_builder_empty/block_builder_empty__cap", "my_malloc/my_malloc__cap", "my_calloc/my_calloc__cap", "memcpy/memcpy__cap", "block_builder_finish/block_builder_finish__cap", "block_builder_reset/block_builder_reset__cap",
             "threadpool_dispatch/threadpool_dispatch__cap", "_mtbl_writer_compress_block/_mtbl_writer_compress_block__cap", "_mtbl_writer_write_data_block/_mtbl_writer_write_data_block__cap"],
    unwind=24, timeout=900, slice=1, strength="U", functions=["_mtbl_writer_flush"], assumptions=WB_ASSUME + ["thread pool dispatch is a capture contract (delivery itself: assumed contract of mtbl/threadpool.c, C13 not applicable)"])
add("rd_getblock_dfcc", ["C12", "C11", "C01"], ["tu/reader_getblock_dfcc.c"], "h_get_block_dfcc", mode="dfcc", enforce="get_block/get_block__spec",
    replace=["mtbl_fixed_decode32/mtbl_fixed_decode32__cap", "mtbl_varint_decode64/mtbl_varint_decode64__cap", "mtbl_crc32c/mtbl_crc32c__cap", "mtbl_decompress/mtbl_decompress__cap", "block_init/block_init__cap"],
    unwind=16, timeout=900, slice=1, strength="U", functions=["get_block"],
    assumptions=["decoders, checksum, decompression and block_init replaced by capture contracts (own checks: c16_*, C17, C15, blk_*); file size <= 2^40, any offset inside it, any length prefix",
                 "a checksum mismatch / failed decompression stops at the function's own assert (permitted loud stop)"])
# ---------------------------------------------------------------- fileset reload rules under DFCC (no bound on tables / handles / histories)
for fn in ("reload", "reload_now"):
    add(f"fs_{fn}_dfcc", ["C07"], ["tu/fileset_dfcc.c"], f"h_fileset_{fn}_dfcc", mode="dfcc", enforce=f"mtbl_fileset_{fn}/mtbl_fileset_{fn}__spec",
        replace=["my_fileset_reload/my_fileset_reload__cap", "fs_reinit_merger/fs_reinit_merger__cap", "my_gettime/my_gettime__cap"], unwind=16, timeout=900, slice=1, strength="U",
        functions=[f"mtbl_fileset_{fn}"],
        assumptions=["my_fileset_reload replaced by its contract over a ghost generation (bumped exactly when a table is loaded or unloaded, as fs_load / fs_unload count; own check: myfs_reload_step), fs_reinit_merger by 'merger built from the current generation' (own check: fs_*_step, bounded in the number of tables)",
                     "monotonic clock whose value differs from every timestamp handed out before (a timestamp identifies a generation)", "handle invariant H assumed on entry and re-established: every history of reloads through any handle"])
# ---------------------------------------------------------------- C18: the by-name open wrapper (descriptor balance), DFCC
add("rd_init_dfcc", ["C18"], ["tu/reader_init_dfcc.c"], "h_reader_init_dfcc", mode="dfcc", enforce="mtbl_reader_init/mtbl_reader_init__spec",
    replace=["open/open__cap", "close/close__cap", "mtbl_reader_init_fd/mtbl_reader_init_fd__cap"], unwind=8, timeout=300, strength="U", functions=["mtbl_reader_init"],
    assumptions=["open / close by their POSIX contracts with a descriptor counter; mtbl_reader_init_fd replaced by 'returns NULL or a reader, does not close the caller's descriptor' (its memory safety: c19_reader_open; its mapping balance on refusal paths is not decided)"])
add("so_iter_dfcc", ["C06", "C18"], ["tu/sorter_iter_dfcc.c"], "h_sorter_iter_dfcc", mode="dfcc", enforce="mtbl_sorter_iter/mtbl_sorter_iter__spec",
    replace=["my_calloc/my_calloc__cap", "free/free__cap", "_mtbl_sorter_flush/_mtbl_sorter_flush__cap", "mtbl_merger_options_init/mtbl_merger_options_init__cap", "mtbl_merger_options_set_merge_func/mtbl_merger_options_set_merge_func__cap",
             "mtbl_merger_options_destroy/mtbl_merger_options_destroy__cap", "mtbl_merger_init/mtbl_merger_init__cap", "result_handler_destroy/result_handler_destroy__cap", "mtbl_reader_source/mtbl_reader_source__cap",
             "mtbl_merger_add_source/mtbl_merger_add_source__cap", "mtbl_merger_source/mtbl_merger_source__cap", "mtbl_source_iter/mtbl_source_iter__cap", "mtbl_iter_init/mtbl_iter_init__cap"],
    loops="loops/so_iter.json", unwind=24, timeout=900, slice=1, strength="U", functions=["mtbl_sorter_iter"],
    assumptions=["merger, merger options, reader source, result handler and iterator constructors replaced by capture contracts; up to 2^28 chunk readers", "the options object leaked when the final flush fails is the open observation of DESIGN.md section 5 (not a listed clause)"])
FS_DFCC2_ASSUME = ["mtbl_fileset_reload replaced by its own contract (group fs_reload_dfcc): callers see only the contract", "merger / iterator constructors and destructors are capture contracts", "monotonic clock whose value differs from every timestamp handed out before; handle invariant H assumed on entry"]
add("fs_source_iter_dfcc", ["C07"], ["tu/fileset_dfcc.c"], "h_fileset_source_iter_dfcc", mode="dfcc", enforce="fileset_source_iter/fileset_source_iter__spec",
    replace=["mtbl_fileset_reload/mtbl_fileset_reload__spec", "my_calloc/my_calloc__cap", "mtbl_merger_source/mtbl_merger_source__cap", "mtbl_source_iter/mtbl_source_iter__cap", "mtbl_iter_init/mtbl_iter_init__cap"],
    unwind=24, timeout=900, slice=1, strength="U", functions=["fileset_source_iter", "fileset_iter_init"], assumptions=FS_DFCC2_ASSUME)
add("fs_iter_free_dfcc", ["C07", "C18"], ["tu/fileset_dfcc.c"], "h_fileset_iter_free_dfcc", mode="dfcc", enforce="fileset_iter_free/fileset_iter_free__spec",
    replace=["mtbl_fileset_reload/mtbl_fileset_reload__spec", "mtbl_iter_destroy/mtbl_iter_destroy__cap", "free/free__cap"],
    unwind=24, timeout=900, slice=1, strength="U", functions=["fileset_iter_free"], assumptions=FS_DFCC2_ASSUME)
# ---------------------------------------------------------------- the "pump" loops (iterator -> writer) under DFCC loop contracts: any number of entries
add("src_write_dfcc", ["C04", "C18"], ["tu/source_write_dfcc.c"], "h_source_write_dfcc", mode="dfcc", enforce="mtbl_source_write/mtbl_source_write__spec",
    replace=["mtbl_source_iter/mtbl_source_iter__cap", "mtbl_iter_next/mtbl_iter_next__cap", "mtbl_writer_add/mtbl_writer_add__cap", "mtbl_iter_destroy/mtbl_iter_destroy__cap"],
    loops="loops/pump_source.json", unwind=16, timeout=600, slice=1, strength="U", functions=["mtbl_source_write"],
    assumptions=["iterator and writer are capture contracts: every successful next yields an arbitrary fresh entry; the writer's add contract requires at the call site that it receives exactly that entry, once, before the next is fetched",
                 "termination is not claimed (no decreases clause: the stream is arbitrary); streams of fewer than 2^62 entries (ghost counters do not wrap)"])
PUMP_ASSUME = ["iterator and writer are capture contracts: every successful next yields an arbitrary fresh entry; the writer's add contract requires at the call site that it receives exactly that entry, once, before the next is fetched",
               "termination is not claimed (no decreases clause: the stream is arbitrary); streams of fewer than 2^62 entries (ghost counters do not wrap)"]
add("so_write_dfcc", ["C06", "C18"], ["tu/sorter_write_dfcc.c"], "h_sorter_write_dfcc", mode="dfcc", enforce="mtbl_sorter_write/mtbl_sorter_write__spec",
    replace=["mtbl_sorter_iter/mtbl_sorter_iter__cap", "mtbl_iter_next/mtbl_iter_next__cap", "mtbl_writer_add/mtbl_writer_add__cap", "mtbl_iter_destroy/mtbl_iter_destroy__cap"],
    loops="loops/pump_sorter.json", unwind=16, timeout=600, slice=1, strength="U", functions=["mtbl_sorter_write"], assumptions=PUMP_ASSUME + ["mtbl_sorter_iter replaced by a capture contract (own check: so_iter_dfcc)"])
add("merge_tool_dfcc", ["C04", "C18"], ["tu/merge_tool_dfcc.c"], "h_merge_tool_dfcc", mode="dfcc", enforce="merge/merge__spec",
    replace=["mtbl_merger_source/mtbl_merger_source__cap", "mtbl_source_iter/mtbl_source_iter__cap", "mtbl_iter_next/mtbl_iter_next__cap", "mtbl_writer_add/mtbl_writer_add__cap", "mtbl_iter_destroy/mtbl_iter_destroy__cap",
             "mtbl_merger_destroy/mtbl_merger_destroy__cap", "mtbl_writer_destroy/mtbl_writer_destroy__cap", "print_stats/print_stats__cap"],
    loops="loops/pump_merge.json", unwind=16, timeout=600, slice=1, strength="U", functions=["merge (src/mtbl_merge.c)"], assumptions=PUMP_ASSUME + ["the statistics output every STATS_INTERVAL entries is replaced by a no-op contract"])
add("bb_reset_dfcc", ["C09", "C01"], ["tu/bb_reset_dfcc.c"], "h_bb_reset_dfcc", mode="dfcc", enforce="block_builder_reset/block_builder_reset__spec",
    replace=["ubuf_reset/ubuf_reset__cap", "uint64_vec_reset/uint64_vec_reset__cap", "uint64_vec_add/uint64_vec_add__cap"], unwind=16, timeout=300, slice=1, strength="U", functions=["block_builder_reset"],
    assumptions=["vector operations replaced by capture contracts (own check: vec_step)"])
add("bb_estimate_dfcc", ["C09"], ["tu/bb_reset_dfcc.c"], "h_bb_estimate_dfcc", mode="dfcc", enforce="block_builder_current_size_estimate/block_builder_current_size_estimate__spec",
    unwind=8, timeout=300, strength="U", functions=["block_builder_current_size_estimate"], assumptions=["entry bytes <= 2^50, restart points <= 2^40"])
for op in ("get", "get_prefix", "get_range"):
    add(f"fs_source_{op}_dfcc", ["C07"], ["tu/fileset_dfcc.c"], f"h_fileset_source_{op}_dfcc", mode="dfcc", enforce=f"fileset_source_{op}/fileset_source_{op}__spec",
        replace=["mtbl_fileset_reload/mtbl_fileset_reload__spec", "my_calloc/my_calloc__cap", "mtbl_merger_source/mtbl_merger_source__cap", f"mtbl_source_{op}/mtbl_source_{op}__cap", "mtbl_iter_init/mtbl_iter_init__cap"],
        unwind=24, timeout=900, slice=1, strength="U", functions=[f"fileset_source_{op}", "fileset_iter_init"], assumptions=FS_DFCC2_ASSUME)
# ---------------------------------------------------------------- merger iterator construction / bounded lookups under DFCC loop contracts (any number of sources)
MGL_REPL = ["merger_iter_init/merger_iter_init__cap", "iter_vec_add/iter_vec_add__cap", "merger_iter_add_entry/merger_iter_add_entry__cap", "merger_iter_free/merger_iter_free__cap", "mtbl_iter_init/mtbl_iter_init__cap",
            "mtbl_source_iter/mtbl_source_iter__cap", "mtbl_source_get_prefix/mtbl_source_get_prefix__cap", "mtbl_source_get_range/mtbl_source_get_range__cap"]
for fn in ("merger_iter", "merger_get", "merger_get_prefix", "merger_get_range"):
    add(f"{fn.replace('merger_', 'mg_')}_dfcc", ["C05", "C04", "C18"], ["tu/merger_lookup_dfcc.c"], f"h_{fn}_dfcc", mode="dfcc", enforce=f"{fn}/{fn}__spec", replace=MGL_REPL,
        loops="loops/mg_lookup.json", unwind=16, timeout=600, slice=1, strength="U", functions=[fn],
        assumptions=["per-source lookups, iterator registration, merger_iter_add_entry, merger_iter_init / free and mtbl_iter_init replaced by capture contracts whose call-site requirements are the sequencing obligations; up to 2^28 sources",
                     "merger_iter_add_entry's own behaviour (heap push of a filled entry): groups mg_lookup, heap_push (bounded)"])
add("mg_free_dfcc", ["C18"], ["tu/merger_free_dfcc.c"], "h_merger_free_dfcc", mode="dfcc", enforce="merger_iter_free/merger_iter_free__spec",
    replace=["mtbl_iter_destroy/mtbl_iter_destroy__cap", "free/free__cap", "heap_destroy/heap_destroy__cap", "entry_vec_destroy/entry_vec_destroy__cap", "iter_vec_destroy/iter_vec_destroy__cap", "ubuf_destroy/ubuf_destroy__cap"],
    loops="loops/mg_free.json", unwind=16, timeout=600, slice=1, strength="U", functions=["merger_iter_free"],
    assumptions=["destructors and free replaced by capture contracts; up to 2^28 sources", "that the ownership list holds every iterator obtained: groups mg_*_dfcc"])
add("rd_iterinit_dfcc", ["C03", "C02"], ["tu/reader_dfcc.c"], "h_reader_init_iter_dfcc", mode="dfcc", enforce="reader_iter_init/reader_iter_init__spec",
    replace=RD_DFCC_REPL + ["my_calloc/my_calloc__cap", "free/free__cap"], unwind=12, timeout=600, strength="U", functions=["reader_iter_init", "get_block_at_index"],
    assumptions=["mtbl/block.c functions and get_block replaced by contracts (as in rd_next_dfcc / rd_seek_dfcc); base case of the block-identity invariant: the constructor used by get / get_prefix / get_range establishes it"])
add("rd_iter_ctor_dfcc", ["C03", "C01"], ["tu/reader_dfcc.c"], "h_reader_iter_ctor_dfcc", mode="dfcc", enforce="reader_iter/reader_iter__spec",
    replace=RD_DFCC_REPL + ["my_calloc/my_calloc__cap", "free/free__cap", "mtbl_iter_init/mtbl_iter_init__cap"], unwind=12, timeout=600, strength="U", functions=["reader_iter", "get_block_at_index"],
    assumptions=["mtbl/block.c functions and get_block replaced by contracts; the plain iterator's constructor establishes the block-identity invariant and wires seek / next / free"])
add("so_flush_dfcc", ["C06", "C18"], ["tu/sorter_flush_dfcc.c"], "h_sorter_flush_dfcc", mode="dfcc", enforce="_mtbl_sorter_flush/_mtbl_sorter_flush__spec",
    replace=["calloc/calloc__cap", "entry_vec_init/entry_vec_init__cap", "_mtbl_sorter_write_chunk/_mtbl_sorter_write_chunk__cap", "reader_vec_add/reader_vec_add__cap", "threadpool_dispatch/threadpool_dispatch__cap"],
    unwind=16, timeout=600, slice=1, strength="U", functions=["_mtbl_sorter_flush", "_mtbl_sorter_get_entry_batch"],
    assumptions=["allocation, the vector operations, _mtbl_sorter_write_chunk and threadpool_dispatch replaced by capture contracts (chunk writing: so_chunk_*; delivery by the pool: assumed contract of mtbl/threadpool.c)"])
add("so_destroy_dfcc", ["C18"], ["tu/sorter_destroy_dfcc.c"], "h_sorter_destroy_dfcc", mode="dfcc", enforce="mtbl_sorter_destroy/mtbl_sorter_destroy__spec",
    replace=["result_handler_destroy/result_handler_destroy__cap", "free/free__cap", "mtbl_reader_destroy/mtbl_reader_destroy__cap", "entry_vec_destroy/entry_vec_destroy__cap", "reader_vec_destroy/reader_vec_destroy__cap"],
    loops="loops/so_destroy.json", unwind=16, timeout=600, slice=1, strength="U", functions=["mtbl_sorter_destroy"],
    assumptions=["result_handler_destroy's contract: returns after the jobs in flight have been delivered, i.e. it may append any number of readers to the chunk list (assumed contract of mtbl/threadpool.c); destructors and free are capture contracts; up to 2^28 entries / readers (loop counters are 32-bit)"])
add("rd_initfd_dfcc", ["C18", "C12"], ["tu/reader_initfd_dfcc.c"], "h_reader_initfd_dfcc", mode="dfcc", enforce="mtbl_reader_init_fd/mtbl_reader_init_fd__spec",
    replace=["fstat/fstat__cap", "my_calloc/my_calloc__cap", "memcpy/memcpy__cap", "mmap/mmap__cap", "free/free__cap", "metadata_read/metadata_read__cap", "mtbl_reader_destroy/mtbl_reader_destroy__cap", "reader_init_madvise/reader_init_madvise__cap",
             "mtbl_fixed_decode32/mtbl_fixed_decode32__cap", "mtbl_varint_decode64/mtbl_varint_decode64__cap", "mtbl_crc32c/mtbl_crc32c__cap", "block_init/block_init__cap", "mtbl_source_init/mtbl_source_init__cap"],
    unwind=24, timeout=600, slice=1, strength="U", functions=["mtbl_reader_init_fd"],
    assumptions=["fstat / mmap / trailer parser / decoders / checksum / block_init / source_init are capture contracts with arbitrary results (memory safety of the same function over real file bytes: c19_reader_open); mtbl_reader_destroy by its own contract (rd_destroy_dfcc)"])
add("rd_destroy_dfcc", ["C18"], ["tu/reader_initfd_dfcc.c"], "h_reader_destroy_dfcc", mode="dfcc", enforce="mtbl_reader_destroy/mtbl_reader_destroy__spec",
    replace=["munmap/munmap__cap", "free/free__cap", "block_destroy/block_destroy__cap", "mtbl_source_destroy/mtbl_source_destroy__cap"], unwind=8, timeout=300, slice=1, strength="U", functions=["mtbl_reader_destroy"], assumptions=["munmap / free / block_destroy / mtbl_source_destroy are capture contracts"])
add("blk_init_safety", ["C19"], ["tu/blk_init_safety.c", "$REPO/mtbl/fixed.c", "$REPO/mtbl/varint.c"], "h_blk_init_safety", unwind=8, object_bits=10, safety="P", timeout=300, strength="U",
    functions=["block_init", "num_restarts", "mtbl_fixed_decode32"], assumptions=["any byte range of length <= 2^40 with arbitrary content; every pointer / bounds check inside block_init is property-grade; assert() stops are permitted outcomes"])
