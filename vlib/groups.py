"""Registry of verification groups.  Each group names the real /repo sources it compiles, the harness
entry, how contracts are checked (DFCC or explicit harness), its strength (U / B:<bound>) and what it assumes."""
from .core import Group

G = []

def add(*a, **k):
    G.append(Group(*a, **k))

A_LE = "x86_64 little-endian data model (htole32/le32toh are identities as goto-cc models them)"

# ---------------------------------------------------------------- C16 varint / fixed
for h in ("h_varint32", "h_varint64", "h_varint_decode_any", "h_fixed"):
    add(f"c16_{h[2:]}", ["C16"], ["tu/varint.c"], h, unwind=25, strength="U", timeout=120,
        functions=["mtbl_varint_length", "mtbl_varint_length_packed", "mtbl_varint_encode32", "mtbl_varint_encode64",
                   "_varint_decode", "mtbl_varint_decode32", "mtbl_varint_decode64", "mtbl_fixed_encode32",
                   "mtbl_fixed_encode64", "mtbl_fixed_decode32", "mtbl_fixed_decode64"],
        assumptions=[A_LE, "loops are width-bounded (<= 10 / <= 24 iterations): unwound with unwinding assertions, complete for the full 32/64-bit domain"],
        replay="c16")

# ---------------------------------------------------------------- C19 open arbitrary bytes
add("c19_reader_open", ["C19"], ["tu/reader_open.c", "$REPO/mtbl/metadata.c", "$REPO/mtbl/varint.c", "$REPO/mtbl/fixed.c",
    "$REPO/mtbl/source.c", "$REPO/mtbl/iter.c"], "h_reader_open",
    unwind=12, object_bits=10, safety="P", strength="U", timeout=900, slice=100, replay="c19",
    functions=["mtbl_reader_init", "mtbl_reader_init_fd", "reader_init_madvise", "metadata_read", "mtbl_varint_decode64",
               "mtbl_fixed_decode32", "mtbl_fixed_decode64", "block_init", "num_restarts", "mtbl_reader_destroy", "block_destroy",
               "mtbl_source_init", "mtbl_source_destroy"],
    assumptions=["fstat reports the true size; mmap returns exactly st_size readable bytes or MAP_FAILED (POSIX)",
                 "file size <= 2^40 bytes (object-bits 10 leaves 54 offset bits); content arbitrary; both format versions (magic symbolic)",
                 "mtbl_crc32c reads exactly [buf, buf+size) (its own contract, C17)", "allocation never fails (--no-malloc-may-fail; /repo asserts on it)",
                 "every in-function pointer/bounds check is property-grade here; assert() stops of /repo are permitted outcomes (L)"])
