"""Registry of verification groups.  Each group names the real /repo sources it compiles, the harness
entry, how contracts are checked (DFCC or explicit harness), its strength (U / B:<bound>) and what it assumes."""
from .core import Group

G = []

def add(*a, **k):
    G.append(Group(*a, **k))

A_LE = "x86_64 little-endian data model (htole32/le32toh are identities as goto-cc models them)"

# ---------------------------------------------------------------- C16 varint / fixed
for h in ("h_varint32", "h_varint64", "h_varint_decode_any", "h_fixed"):
    add(f"c16_{h[2:]}", ["C16"], ["tu/varint.c"], h, unwind=25, strength="U", timeout=120,
        functions=["mtbl_varint_length", "mtbl_varint_length_packed", "mtbl_varint_encode32", "mtbl_varint_encode64",
                   "_varint_decode", "mtbl_varint_decode32", "mtbl_varint_decode64", "mtbl_fixed_encode32",
                   "mtbl_fixed_encode64", "mtbl_fixed_decode32", "mtbl_fixed_decode64"],
        assumptions=[A_LE, "loops are width-bounded (<= 10 / <= 24 iterations): unwound with unwinding assertions, complete for the full 32/64-bit domain"],
        replay="c16")
