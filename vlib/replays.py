"""Native replays: rebuild failing inputs from the verifier's counterexample where its values map to API inputs, and
sweep the neighbourhood of the failed obligation (scenario families per property, seeded by VERIF_SEED) on the REAL
code compiled from /repo's working tree (tools/native.sh) against independent oracles.  A replay that reproduces the
wrong behaviour natively confirms the violation; otherwise the VIOLATION line ends with no-failing-input-found.
Each handler returns (confirmed: bool, detail: dict)."""
import json, os, random, subprocess, sys
from .core import ROOT, BUILD

SEED = int(os.environ.get("VERIF_SEED", "0") or 0)

def _native(name, extra=()):
    exe = os.path.join(BUILD, "native-" + name)
    r = subprocess.run([os.path.join(ROOT, "tools", "native.sh"), exe, os.path.join(ROOT, "replay", name + ".c")] + list(extra),
                       capture_output=True, text=True)
    if r.returncode != 0 or not os.path.exists(exe):
        raise RuntimeError("native build failed: " + r.stderr[-800:])
    return exe

def _run(cmd, timeout=180, env=None):
    e = dict(os.environ); e["ASAN_OPTIONS"] = "detect_leaks=0"
    if env: e.update(env)
    try:
        r = subprocess.run(cmd, capture_output=True, text=True, timeout=timeout, env=e)
        return r.returncode, (r.stdout + r.stderr)[-1200:]
    except subprocess.TimeoutExpired:
        return 124, "timeout"

def _int(v, default=0):
    try:
        if isinstance(v, str):
            v = v.strip().rstrip("ulUL")
            return int(v, 0)
        return int(v)
    except Exception:
        return default

def _sweep(exe, scenarios, label):
    tried = 0
    for sc in scenarios:
        tried += 1
        rc, out = _run([exe] + [str(x) for x in sc])
        if rc == 1:
            return True, {"scenario": " ".join(str(x) for x in sc), "rc": rc, "output": out, "scenarios_tried": tried, "family": label}
    return False, {"scenarios_tried": tried, "family": label, "note": "no scenario of the family failed natively"}

def c16(rec, wd):
    inp = rec.get("counterexample_inputs", {})
    v = _int(inp.get("in_v", inp.get("in_v64", inp.get("in_v32", 0))))
    off = _int(inp.get("in_off", 0))
    exe = _native("c16_codec")
    cmd = [exe, hex(v & (2**64 - 1)), str(off)]
    b = inp.get("in_b")
    if isinstance(b, list):
        cmd += [hex(_int(x) & 0xff) for x in b]
    rc, out = _run(cmd)
    return rc == 1, {"cmd": " ".join(cmd), "rc": rc, "output": out}

def c03(rec, wd):
    exe = _native("c03_seek"); rng = random.Random(SEED + 3)
    tmp = os.path.join(BUILD, "replay-c03.mtbl")
    scen = []
    for kind in ("iter", "range"):
        scen.append([tmp, 40, 200, kind] + ["n"] * 20 + ["s0", "n", "n"])
        for j in range(0, 80, 7): scen.append([tmp, 40, 200, kind, f"s{j}", "n", "n", f"s{j}", "n"])
        for _ in range(120):
            ops = [rng.choice(["n", "n", f"s{rng.randrange(0, 84)}"]) for _ in range(rng.randrange(3, 14))]
            scen.append([tmp, rng.choice([12, 40]), rng.choice([60, 200]), kind] + ops)
    return _sweep(exe, scen, "reader iterator histories of next/seek on multi-block tables (restart interval 3)")

def c04(rec, wd):
    exe = _native("c04_merge", ["-fsanitize=address"]); rng = random.Random(SEED + 4)
    keys = ["", "a", "ab", "b", "c", "d"]
    def src():
        ks = sorted(set(rng.sample(keys, rng.randrange(0, 4))))
        return ",".join(f"{k}={rng.randrange(1, 9)}" for k in ks) or "-"
    scen = [[1, "=E,b=B", "a=A", "--", "n", "n", "n", "n"], [1, "a=1,c=3", "b=2,c=4,d=5", "--", "n", "n", "sb", "n", "n", "n", "n"],
            [1, "a=1,c=3,e=5", "a=2,x=9", "--", "n", "sf", "sc", "n", "n", "n", "n"]]
    for _ in range(150):
        ops = [rng.choice(["n", "n", "s" + rng.choice(keys)]) for _ in range(rng.randrange(2, 10))]
        scen.append([1] + [src() for _ in range(rng.randrange(1, 4))] + ["--"] + ops)
    return _sweep(exe, scen, "merger over user-defined sources (buffers invalidated), merge function set, histories of next/seek")

def c07(rec, wd):
    exe = _native("c07_fileset", ["-fsanitize=address"]); rng = random.Random(SEED + 7)
    d = os.path.join(BUILD, "replay-c07"); os.makedirs(d, exist_ok=True)
    scen = [[d, "iA", "iB", "w13", "RA", "RB", "iB"], [d, "oA", "w34", "RB", "iB", "cA", "iA", "iB"]]
    ops = ["iA", "iB", "RA", "RB", "rA", "rB", "w12", "w13", "w234", "w1", "w34"]
    for _ in range(60): scen.append([d] + [rng.choice(ops) for _ in range(rng.randrange(3, 10))])
    return _sweep(exe, scen, "fileset handle + dup, reload interval NEVER, histories of setfile rewrites / reload / reload_now / iterate")

def c15(rec, wd):
    exe = _native("c15_rt"); inp = rec.get("counterexample_inputs", {})
    scen = []
    size = _int(inp.get("in_size", 0)); alg = {"MTBL_COMPRESSION_SNAPPY": 1, "MTBL_COMPRESSION_ZLIB": 2, "MTBL_COMPRESSION_LZ4": 3, "MTBL_COMPRESSION_LZ4HC": 4, "MTBL_COMPRESSION_ZSTD": 5}
    a = next((v for k, v in alg.items() if k in str(inp.get("in_alg", ""))), None)
    lvl = "d" if "TRUE" in str(inp.get("in_default", "")).upper() else str(_int(inp.get("in_level", 0)))
    if a and size <= (5 << 30): scen += [[a, lvl, size, "r"], [a, lvl, size, "z"]]
    for a2 in (1, 2, 3, 4, 5):
        for n in (0, 1, 7, 8, 100, 100000, 1 << 20):
            for l in ("d", "-2", "0", "9", "99", "-1000"):
                scen.append([a2, l, n, "z"]); scen.append([a2, l, n, "r"])
    return _sweep(exe, scen, "compress/decompress round trips (counterexample size first, then a grid of algorithms, levels, sizes, contents)")

def c18(rec, wd):
    exe = _native("c18_sorter", ["-fsanitize=address"]); d = os.path.join(BUILD, "replay-c18"); os.makedirs(d, exist_ok=True)
    scen = [[d, 1, 1, 0, 0], [d, 2, 0, 0, 1], [d, 3, 0, 2, 0], [d, 2, 0, 2, 1], [d, 1, 0, 0, 0]]
    return _sweep(exe, scen, "sorter life cycles: chunks x failing merge x pool x iterate; descriptors, chunk mappings, temp files, LeakSanitizer")

def c19(rec, wd):
    exe = _native("c19_open"); mk = os.path.join(BUILD, "native-mk19")
    src = os.path.join(BUILD, "mk19.c")
    open(src, "w").write('#include <mtbl.h>\n#include <unistd.h>\nint main(int c,char**v){unlink(v[1]);struct mtbl_writer_options*o=mtbl_writer_options_init();mtbl_writer_options_set_compression(o,MTBL_COMPRESSION_NONE);struct mtbl_writer*w=mtbl_writer_init(v[1],o);mtbl_writer_add(w,(uint8_t*)"a",1,(uint8_t*)"1",1);mtbl_writer_add(w,(uint8_t*)"b",1,(uint8_t*)"2",1);mtbl_writer_destroy(&w);return 0;}\n')
    subprocess.run([os.path.join(ROOT, "tools", "native.sh"), mk, src], capture_output=True)
    good = os.path.join(BUILD, "replay-c19-good.mtbl"); subprocess.run([mk, good])
    data = bytearray(open(good, "rb").read()); rng = random.Random(SEED + 19)
    import struct
    off = struct.unpack("<Q", data[-512:-504])[0]
    files = []
    def emit(b, tag):
        p = os.path.join(BUILD, f"replay-c19-{len(files)}.mtbl"); open(p, "wb").write(bytes(b)); files.append(p)
    for v in (bytes([0xff, 0xff, 0xff, 0xff, 0x07]), bytes([0xff] * 9 + [0x01]), bytes([0xf2] + [0xff] * 8 + [0x01]), bytes([0x80, 0x80, 0x80, 0x80, 0x10])):
        b = bytearray(data); b[off:off + len(v)] = v; emit(b, "len")
    for o2 in (0, 1, len(data) - 525, len(data) - 512, 2**64 - 1, 2**63):
        b = bytearray(data); b[-512:-504] = struct.pack("<Q", o2 % 2**64); emit(b, "off")
    for n in range(512, 530):
        for magic in (b"LBTM", b"\x76\x66\x84\x77"):
            b = bytearray(rng.randrange(256) for _ in range(n)); b[-4:] = magic; b[-512:-504] = struct.pack("<Q", rng.choice([0, 1, 5, 2**64 - 1, 2**64 - 520])); emit(b, "tiny")
    for n in (0, 100, 511, len(data) - 1, len(data) - 100): emit(data[:n], "trunc")
    scen = [[f, v] for f in files for v in (0, 1)]
    ok, det = _sweep(exe, scen, "open damaged tables: index length prefix, index offset, trailer-only files, truncations; verify on/off")
    return ok, det

def c20(rec, wd):
    exe = _native("c20_frag", ["-Dwrite=vg_shim_write"])
    return _sweep(exe, [[os.path.join(BUILD, "replay-c20.mtbl"), SEED + 1]], "every single EINTR / short write, every EINTR-then-short pair, 200 seeded random fault plans on a 12-entry table")

def c08(rec, wd):
    exe = _native("c08_writer", ["-I" + os.path.join(ROOT, "replay")])
    scen = [[os.path.join(BUILD, "replay-c08.mtbl"), SEED + k, 150] for k in range(1, 5)]
    return _sweep(exe, scen, "seeded random writer sessions (binary keys, empty key, prefixes, refusals, oversized entries, foreign prefix, pool) checked by a reference comparator, an independent structural validator, trailer-vs-truth and read-back")

REPLAYS = {"c08": c08, "c10": c08, "c09": c08, "c16": c16, "c03": c03, "c02": c03, "c04": c04, "c07": c07, "c15": c15, "c18": c18, "c19": c19, "c20": c20}

def replay_file(path):
    rec = json.load(open(path))
    from . import groups
    g = next((g for g in groups.G if g.name == rec.get("group")), None)
    if not g or not g.replay or g.replay not in REPLAYS:
        print("no native replay template for this obligation; verifier output:\n" + rec.get("verifier_output", ""))
        return 2
    ok, detail = REPLAYS[g.replay](rec, BUILD)
    print(json.dumps(detail, indent=1))
    print("REPRODUCED" if ok else "not reproduced")
    return 1 if ok else 0
