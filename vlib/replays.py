"""Native replays: rebuild the failing input from the verifier's counterexample and run the real code
(compiled from /repo's working tree by tools/native.sh) against an independent oracle.
Each handler returns (confirmed: bool, detail: dict)."""
import json, os, subprocess, sys, tempfile
from .core import ROOT, BUILD

def _native(name, extra=()):
    exe = os.path.join(BUILD, "native-" + name)
    r = subprocess.run([os.path.join(ROOT, "tools", "native.sh"), exe, os.path.join(ROOT, "replay", name + ".c")] + list(extra),
                       capture_output=True, text=True)
    if r.returncode != 0:
        raise RuntimeError("native build failed: " + r.stderr[-800:])
    return exe

def _run(cmd, timeout=120, env=None):
    e = dict(os.environ); e["ASAN_OPTIONS"] = "detect_leaks=0"
    if env: e.update(env)
    r = subprocess.run(cmd, capture_output=True, text=True, timeout=timeout, env=e)
    return r.returncode, (r.stdout + r.stderr)[-1500:]

def _int(v, default=0):
    try:
        if isinstance(v, str):
            v = v.strip().rstrip("ulUL")
            return int(v, 0)
        return int(v)
    except Exception:
        return default

def c16(rec, wd):
    inp = rec.get("counterexample_inputs", {})
    v = _int(inp.get("in_v", inp.get("in_v64", inp.get("in_v32", 0))))
    off = _int(inp.get("in_off", 0))
    exe = _native("c16_codec")
    cmd = [exe, hex(v & (2**64 - 1)), str(off)]
    b = inp.get("in_b")
    if isinstance(b, list):
        cmd += [hex(_int(x) & 0xff) for x in b]
    rc, out = _run(cmd)
    return rc == 1, {"cmd": " ".join(cmd), "rc": rc, "output": out}

REPLAYS = {"c16": c16}

def replay_file(path):
    rec = json.load(open(path))
    from . import groups
    g = next((g for g in groups.G if g.name == rec.get("group")), None)
    if not g or not g.replay or g.replay not in REPLAYS:
        print("no native replay template for this obligation; verifier output:\n" + rec.get("verifier_output", ""))
        return 2
    ok, detail = REPLAYS[g.replay](rec, BUILD)
    print(json.dumps(detail, indent=1))
    print("REPRODUCED" if ok else "not reproduced")
    return 1 if ok else 0
