"""Native replays: rebuild the failing input from the verifier's counterexample and run the real code."""
REPLAYS = {}
