#!/bin/sh
# run the quick check of every claimed property, print one summary line each
cd /verif
for p in $(python3 -c "import json; print(' '.join(c['property_id'] for c in json.load(open('MANIFEST.json'))['checks']))"); do
  s=$(date +%s); out=$(./vcheck $p --tier ${1:-quick} 2>&1); rc=$?; e=$(date +%s)
  echo "$p rc=$rc $((e-s))s :: $(echo "$out" | tail -1 | cut -c1-200)"
  echo "$out" | grep -E "^(VIOLATION|UNDECIDED|KNOWN)" | sed 's/ replay=[^ ]*//' | cut -c1-300
done
