#!/bin/sh
# usage: mkworktree.sh <dir>  -- scratch git worktree of /repo HEAD, configured and built (outside /repo and /verif)
set -e
d="$1"
git -C /repo worktree add --detach "$d" HEAD >/dev/null 2>&1
(cd /repo && tar cf - configure Makefile.in aclocal.m4 build-aux config.h.in) | (cd "$d" && tar xf -)
(cd "$d" && ./configure >/dev/null 2>&1 && make -j8 >/dev/null 2>&1)
echo "$d ready"
