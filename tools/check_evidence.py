#!/usr/bin/env python3
"""Validate every committed evidence file the way the acceptance check does: schema, level == MANIFEST category,
proof-level files have obligations >= 1 and discharged >= 1, no violations, written by a full run (all registered groups of the tier)."""
import json, os, sys
sys.path.insert(0, os.path.dirname(os.path.dirname(os.path.abspath(__file__))))
from vlib import groups
ROOT = os.path.dirname(os.path.dirname(os.path.abspath(__file__)))
m = json.load(open(os.path.join(ROOT, "MANIFEST.json")))
try:
    import jsonschema; sch = json.load(open("/root/.vp/EVIDENCE.schema.json"))
except Exception: jsonschema = None
bad = 0
for c in m["checks"]:
    p = c["property_id"]; f = c["evidence_file"]
    try: e = json.load(open(f))
    except Exception as x: print(p, "MISSING/INVALID JSON", x); bad += 1; continue
    msgs = []
    if jsonschema:
        try: jsonschema.validate(e, sch)
        except Exception as x: msgs.append("schema: " + str(x)[:120])
    if e.get("level") != c["level_claimed"]["category"]: msgs.append(f"level {e.get('level')} != claimed {c['level_claimed']['category']}")
    cov = e.get("coverage", {})
    if c["level_claimed"]["category"] == "proof" and (cov.get("obligations", 0) < 1 or cov.get("discharged", 0) < 1): msgs.append("proof level without discharged obligations")
    if e.get("violations"): msgs.append("violations recorded")
    want = {g.name for g in groups.G if p in g.props and g.tier == "quick"}
    have = {g["group"] for g in cov.get("groups", [])}
    if e.get("tier") == "quick" and want - have: msgs.append("not a full run; missing groups: " + ",".join(sorted(want - have))[:200])
    if cov.get("undecided"): msgs.append("undecided groups: " + str(cov["undecided"])[:120])
    print(p, "OK" if not msgs else "PROBLEM: " + "; ".join(msgs), f"U={cov.get('obligations')}/{cov.get('discharged')} B={cov.get('bounded_obligations', {}).get('count')} wall={e.get('wall_s')}s")
    bad += bool(msgs)
sys.exit(1 if bad else 0)
