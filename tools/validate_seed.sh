#!/bin/sh
# usage: validate_seed.sh <seed_dir containing patch.diff build_demo.sh ...> <name>
# Confirms in a fresh scratch worktree of /repo HEAD: demo passes unpatched; patch applies; builds; make check 15/15; demo fails patched.
d="$1"; name="$2"; wt=/tmp/val-$name
rm -rf "$wt"; /verif/tools/mkworktree.sh "$wt" >/dev/null || { echo "$name: worktree failed"; exit 2; }
res=""
(cd "$d" && sh ./build_demo.sh "$wt" >/tmp/val-$name.clean.log 2>&1); c=$?
if ! git -C "$wt" apply "$d/patch.diff" 2>/tmp/val-$name.apply.log; then
  git -C "$wt" apply --3way "$d/patch.diff" 2>>/tmp/val-$name.apply.log || { echo "$name: PATCH DOES NOT APPLY"; git -C /repo worktree remove --force "$wt"; exit 2; }
fi
(cd "$wt" && make -j8 >/tmp/val-$name.make.log 2>&1); m=$?
chk=$(cd "$wt" && make check 2>&1 | grep -E "^# (PASS|FAIL):" | tr -d '\n ')
(cd "$d" && sh ./build_demo.sh "$wt" >/tmp/val-$name.patched.log 2>&1); p=$?
echo "$name: demo_clean_rc=$c make_rc=$m check=[$chk] demo_patched_rc=$p"
git -C /repo worktree remove --force "$wt"
