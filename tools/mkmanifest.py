#!/usr/bin/env python3
"""Generate /verif/MANIFEST.json from the group registry and the per-property claims in vlib/claims.py."""
import json, os, sys
sys.path.insert(0, os.path.dirname(os.path.dirname(os.path.abspath(__file__))))
from vlib import groups, claims

ROOT = os.path.dirname(os.path.dirname(os.path.abspath(__file__)))
props = [json.loads(l)["id"] for l in open(os.path.join(ROOT, "properties.jsonl"))]
checks, na = [], []
for p in props:
    c = claims.CLAIMS.get(p)
    has = any(p in g.props for g in groups.G)
    if c and has and not c.get("na"):
        checks.append({
            "property_id": p,
            "quick_cmd": f"./vcheck {p} --tier quick",
            "thorough_cmd": f"./vcheck {p} --tier thorough",
            "evidence_file": f"/verif/evidence/{p}.json",
            "replay_cmd_template": "./vcheck --replay {path}",
            "engine": "cbmc-contracts",
            "level_claimed": {"category": c["category"], "text": c["text"], "design_ref": c.get("design_ref", "DESIGN.md section 4 " + p)},
            "level_note": c["note"],
            "technique": c["technique"],
        })
    else:
        na.append({"property_id": p, "reason": (c or {}).get("na") or claims.NA.get(p) or "not yet under contract in this build of the framework (see DESIGN.md section 4); no check registered"})
m = {
    "version": 1,
    "setup_cmd": "./setup.sh",
    "hooks": {"guard": "MTBL_VERIF", "enable": "none needed: contracts are separate declarations compiled together with the unmodified /repo sources (goto-cc -I/verif); no guarded source hook exists",
              "baseline_off_cmd": "make -C /repo check", "source_commits": [], "add_only": True},
    "engines": [{"name": "cbmc-contracts", "path": "/verif/vcheck", "serves_properties": [c["property_id"] for c in checks],
                 "kind_free_text": "contract-based deductive verification of the real C code: goto-cc on /repo sources + /verif/spec contracts, goto-instrument --dfcc (enforce/replace/loop contracts) or explicit contract harnesses, cbmc 6.11 SAT back end; native replay of counterexamples"}],
    "checks": checks,
    "not_applicable": na,
    "notes": "See DESIGN.md. Exit 0 held / 1 VIOLATION / 2 undecided (tool limit, extraction break, vacuity guard) - exit 2 is never a violation claim.",
}
json.dump(m, open(os.path.join(ROOT, "MANIFEST.json"), "w"), indent=1)
print(f"{len(checks)} checks, {len(na)} not_applicable")
