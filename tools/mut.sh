#!/bin/sh
# usage: mut.sh <file under /repo> <python-regex-old> <new> <prop> [group]   -- apply a one-off textual mutation, run the check, restore
f="$1"; old="$2"; new="$3"; prop="$4"; grp="$5"
python3 - "$f" "$old" "$new" <<'PY'
import sys,re
f,old,new=sys.argv[1:4]
s=open(f).read()
n=len(re.findall(old,s))
if n!=1: print("mutation pattern matched",n,"times"); sys.exit(3)
open(f,'w').write(re.sub(old,new,s,count=1))
PY
[ $? -eq 0 ] || exit 3
if [ -n "$grp" ]; then /verif/vcheck $prop --group $grp; else /verif/vcheck $prop; fi 2>&1 | grep -E "VIOLATION|UNDECIDED|exit" | sed 's/ replay=[^ ]*//' | cut -c1-260
git -C /repo checkout -- "$f"
git -C /verif checkout -- evidence 2>/dev/null
