#!/usr/bin/env python3
"""usage: seedpar.py [-j N] [--tier quick] <seed-id>...
Runs each seeded change against the checks of its property WITHOUT touching /repo: a scratch git worktree of /repo HEAD
under /tmp/st/<id> gets the patch, the driver is pointed at it (VERIF_REPO) and writes build output / evidence / replay
files to /tmp/st/<id>.out (VERIF_OUT).  Worktree and output are removed afterwards.  Outcome -> seeded/<id>/meta.json."""
import json, os, re, shutil, subprocess, sys
from concurrent.futures import ThreadPoolExecutor
ROOT = os.path.dirname(os.path.dirname(os.path.abspath(__file__)))
args = sys.argv[1:]; J = 4; tier = "quick"; ids = []; group = None
while args:
    a = args.pop(0)
    if a == "-j": J = int(args.pop(0))
    elif a == "--tier": tier = args.pop(0)
    elif a == "--group": group = args.pop(0)
    else: ids.append(a)

def one(sid):
    d = os.path.join(ROOT, "seeded", sid); meta = json.load(open(os.path.join(d, "meta.json")))
    wt = f"/tmp/st/{sid}"; out = wt + ".out"
    subprocess.run(["git", "-C", "/repo", "worktree", "remove", "--force", wt], capture_output=True)
    shutil.rmtree(wt, ignore_errors=True); shutil.rmtree(out, ignore_errors=True); os.makedirs("/tmp/st", exist_ok=True)
    r = subprocess.run(["git", "-C", "/repo", "worktree", "add", "--detach", wt, "HEAD"], capture_output=True, text=True)
    if r.returncode: return sid, f"worktree failed {r.stderr[:200]}"
    try:
        shutil.copy("/repo/config.h", wt)
        a = subprocess.run(["git", "-C", wt, "apply", os.path.join(d, "patch.diff")], capture_output=True, text=True)
        if a.returncode: return sid, "patch does not apply: " + a.stderr[:200]
        res = {}
        for p in meta["property"].split(","):
            env = dict(os.environ, VERIF_REPO=wt, VERIF_OUT=out)
            r = subprocess.run([os.path.join(ROOT, "vcheck"), p, "--tier", tier] + (["--group", group] if group else []), capture_output=True, text=True, cwd=ROOT, env=env)
            vio = [l for l in r.stdout.splitlines() if l.startswith("VIOLATION")]
            und = [l for l in r.stdout.splitlines() if l.startswith("UNDECIDED")]
            res[p] = {"rc": r.returncode, "violations": [re.sub(r" replay=\S+", "", v)[:300] for v in vio][:8], "undecided": [u[:300] for u in und][:4]}
        meta.setdefault("runs", {})[tier + (":" + group if group else "")] = res
        det = [p for p, o in res.items() if o["rc"] == 1]
        meta["detected_by"] = sorted(set((meta.get("detected_by") or []) + [f"{p}:{tier}" + (f" ({group})" if group else "") for p in det])) or None
        json.dump(meta, open(os.path.join(d, "meta.json"), "w"), indent=1)
        return sid, " ".join(f"{p}: rc={o['rc']} vio={len(o['violations'])} und={len(o['undecided'])}" + ("".join("\n      " + v[:200] for v in o['violations'][:3] + o['undecided'][:2])) for p, o in res.items())
    finally:
        subprocess.run(["git", "-C", "/repo", "worktree", "remove", "--force", wt], capture_output=True)
        shutil.rmtree(out, ignore_errors=True)

with ThreadPoolExecutor(max_workers=J) as ex:
    for sid, msg in ex.map(one, ids):
        print(sid, msg, flush=True)
