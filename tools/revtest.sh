#!/bin/sh
# usage: revtest.sh <fix-commit> <prop> [group] -- reverse-apply a fix: commit in /repo's working tree, run the check, restore
c="$1"; p="$2"; g="$3"
git -C /repo diff --quiet || { echo "/repo dirty"; exit 2; }
git -C /repo show "$c" | git -C /repo apply -R || exit 2
if [ -n "$g" ]; then /verif/vcheck $p --group $g; else /verif/vcheck $p; fi 2>&1 | grep -E "VIOLATION|UNDECIDED|KNOWN|exit" | sed 's/ replay=[^ ]*//' | cut -c1-240
git -C /repo checkout -- .
git -C /verif checkout -- evidence 2>/dev/null
