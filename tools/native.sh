#!/bin/sh
# usage: native.sh <out-exe> <src.c> [extra cc flags]  -- compile a native replay program against /repo's working tree.
# The library sources are compiled directly from the working tree (not from a stale libmtbl.a).
set -e
REPO=${VERIF_REPO:-/repo}
out="$1"; src="$2"; shift 2
cc -g -O1 -o "$out" "$src" -include $REPO/config.h -I$REPO -I$REPO/mtbl \
   $REPO/mtbl/block.c $REPO/mtbl/block_builder.c $REPO/mtbl/compression.c $REPO/mtbl/crc32c_wrap.c \
   $REPO/mtbl/fileset.c $REPO/mtbl/fixed.c $REPO/mtbl/iter.c $REPO/mtbl/merger.c $REPO/mtbl/metadata.c \
   $REPO/mtbl/reader.c $REPO/mtbl/sorter.c $REPO/mtbl/source.c $REPO/mtbl/threadpool.c $REPO/mtbl/varint.c \
   $REPO/mtbl/writer.c $REPO/libmy/crc32c.c $REPO/libmy/crc32c-slicing.c $REPO/libmy/crc32c-sse42.c \
   $REPO/libmy/heap.c $REPO/libmy/my_fileset.c "$@" -lz -llz4 -lzstd -lsnappy -lpthread
