#!/usr/bin/env python3
"""usage: import_seed.py <prop> <out-dir-variant> <new-id>   e.g. import_seed.py C07 /tmp/seed2/out-C07/a C07-m3
Copies an independently produced change into seeded/<id>/, validates it in a fresh scratch worktree
(tools/validate_seed.sh) and writes meta.json.  Keeps it only if the validation is as required."""
import json, os, re, shutil, subprocess, sys
ROOT = os.path.dirname(os.path.dirname(os.path.abspath(__file__)))
prop, src, sid = sys.argv[1:4]
d = os.path.join(ROOT, "seeded", sid)
if os.path.exists(d):
    print("exists", d); sys.exit(2)
shutil.copytree(src, d)
head = subprocess.run(["git", "-C", "/repo", "rev-parse", "--short", "HEAD"], capture_output=True, text=True).stdout.strip()
r = subprocess.run([os.path.join(ROOT, "tools/validate_seed.sh"), d, sid], capture_output=True, text=True)
line = [l for l in r.stdout.splitlines() if l.startswith(sid + ":")]
print(r.stdout.strip()[-400:])
m = re.search(r"demo_clean_rc=(\d+) make_rc=(\d+) check=\[(.*?)\] demo_patched_rc=(\d+)", line[-1] if line else "")
ok = bool(m) and m.group(1) == "0" and m.group(2) == "0" and "PASS:15" in m.group(3) and "FAIL:0" in m.group(3) and m.group(4) != "0"
if not ok:
    print(sid, "NOT VALID -> removed"); shutil.rmtree(d); sys.exit(1)
files = re.findall(r"^\+\+\+ b/(\S+)", open(os.path.join(d, "patch.diff")).read(), re.M)
meta = {"id": sid, "property": prop, "files_changed": files,
        "needs_to_manifest": "see README.txt (written by the independent sub-agent that produced the change)",
        "origin": "fresh sub-agent (round 2) given only the property record and its own scratch worktree under /tmp (nothing from /verif)",
        "confirmed_by_me": {"how": f"tools/validate_seed.sh in a fresh scratch worktree of /repo HEAD ({head}): demo on clean tree, git apply, make, make check, demo on patched tree",
                            "demo_clean_rc": int(m.group(1)), "make_check": "15 pass / 0 fail", "demo_patched_rc": int(m.group(4))},
        "detected_by": None}
json.dump(meta, open(os.path.join(d, "meta.json"), "w"), indent=1)
print(sid, "imported")
