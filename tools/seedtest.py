#!/usr/bin/env python3
"""usage: seedtest.py <seed-id>... [--props C01,C02] [--tier quick]
Apply a seeded change to /repo, run the checks of its property (or --props), undo it straight afterwards.
Records the outcome in seeded/<id>/meta.json (detected_by)."""
import json, os, subprocess, sys, re
ROOT = os.path.dirname(os.path.dirname(os.path.abspath(__file__)))
args = [a for a in sys.argv[1:] if not a.startswith("--")]
opts = dict(a[2:].split("=", 1) for a in sys.argv[1:] if a.startswith("--") and "=" in a)
tier = opts.get("tier", "quick")
rc_all = 0
for sid in args:
    d = os.path.join(ROOT, "seeded", sid)
    meta = json.load(open(os.path.join(d, "meta.json")))
    props = opts.get("props", meta["property"]).split(",")
    st = subprocess.run(["git", "-C", "/repo", "status", "--porcelain", "--untracked-files=no"], capture_output=True, text=True).stdout.strip()
    if st:
        print("refusing: /repo has local modifications:\n" + st); sys.exit(2)
    a = subprocess.run(["git", "-C", "/repo", "apply", os.path.join(d, "patch.diff")], capture_output=True, text=True)
    if a.returncode != 0:
        a = subprocess.run(["git", "-C", "/repo", "apply", "--3way", os.path.join(d, "patch.diff")], capture_output=True, text=True)
        if a.returncode != 0:
            print(f"{sid}: patch does not apply: {a.stderr[:300]}"); rc_all = 2
            subprocess.run(["git", "-C", "/repo", "reset", "-q", "--hard", "HEAD"], check=False)
            continue
    try:
        out = {}
        for p in props:
            r = subprocess.run([os.path.join(ROOT, "vcheck"), p, "--tier", tier], capture_output=True, text=True, cwd=ROOT)
            vio = [l for l in r.stdout.splitlines() if l.startswith("VIOLATION")]
            und = [l for l in r.stdout.splitlines() if l.startswith("UNDECIDED")]
            out[p] = {"rc": r.returncode, "violations": [re.sub(r" replay=\S+", "", v)[:300] for v in vio][:8], "undecided": [u[:300] for u in und][:4]}
            print(f"{sid} [{p} {tier}] rc={r.returncode} violations={len(vio)} undecided={len(und)}")
            for v in vio[:4]: print("    " + re.sub(r" replay=\S+", "", v)[:220])
            for u in und[:3]: print("    " + u[:260])
    finally:
        subprocess.run(["git", "-C", "/repo", "checkout", "--", "."], check=True)
        subprocess.run(["git", "-C", "/repo", "reset", "-q"], check=False)
    meta.setdefault("runs", {})
    meta["runs"][tier] = out
    det = [p for p, o in out.items() if o["rc"] == 1]
    meta["detected_by"] = sorted(set((meta.get("detected_by") or []) + [f"{p}:{tier}" for p in det])) or None
    json.dump(meta, open(os.path.join(d, "meta.json"), "w"), indent=1)
    # restore evidence files written on the mutated tree
subprocess.run(["git", "-C", ROOT, "checkout", "--", "evidence"], check=False)
sys.exit(rc_all)
