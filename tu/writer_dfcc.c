/* Writer functions under DFCC contracts.  Real code: /repo/mtbl/writer.c (included), varint.c (linked). */
#include "mtbl/writer.c"
#include "spec/writer.spec.h"

void h_write_block(void)
{
	int fd; struct data_block *b;
	size_t r = _mtbl_writer_write_block(fd, b);
	VG_REACH("_mtbl_writer_write_block returns");
}
