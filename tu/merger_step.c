/* Merger induction steps: ALL of /repo/mtbl/merger.c runs for real (merger_iter_next, merger_iter_seek, entry_fill,
 * _mtbl_merger_compare, merger_iter_free) with the real libmy/heap.c and ubuf code.
 * Sources are user-defined iterators over symbolic sorted arrays whose key/value buffers are overwritten on every call
 * (the API allows sources to invalidate old buffers).  mtbl/iter.c's three dispatchers are modelled directly.
 * Harnesses start from an ARBITRARY merger-iterator state satisfying the invariant M (every history of next/seek). */
#include "mtbl/merger.c"
#include "libmy/heap.c"
#include "spec/ghost.h"
void *realloc(void *p, size_t n) { VG_A(0, "no vector growth expected in this capped harness"); __CPROVER_assume(0); return p; }

/* keys are 0 or 1 byte here: memcmp by its definition for n <= 1 (ISO C 7.24.4.1); longer compares: group bytes_compare */
int memcmp(const void *a, const void *b, size_t n) { VG_A(n <= 1, "memcmp length <= 1 in this capped harness"); if (n == 0) return 0; return (int)((const unsigned char *)a)[0] - (int)((const unsigned char *)b)[0]; }
#ifndef NS
#define NS 2          /* sources */
#endif
#define NEs 2         /* entries per source */
static unsigned vg_ns;                              /* 0..NS sources */
static unsigned SN[NS];                             /* entries in source s */
static uint8_t SKEY[NS * NEs]; static size_t SLK[NS * NEs];      /* key: 0 or 1 byte */
static uint16_t SVAL[NS * NEs];                     /* value of entry e = 1 << (2e): sums identify the multiset used */

static int vg_cmp(const uint8_t *a, size_t la, const uint8_t *b, size_t lb)
{ if (la && lb && a[0] != b[0]) return a[0] < b[0] ? -1 : 1; return la < lb ? -1 : la > lb; }

/* ---------- user-defined source iterators (buffers invalidated on every call) ---------- */
struct mtbl_iter { unsigned s; unsigned pos; unsigned seeks, nexts; _Bool freed; };
static uint8_t KBUF[NS]; static uint8_t VBUF[2 * NS];     /* per-source output buffers (flat globals) */
static struct mtbl_iter *SITP[NS];     /* separately allocated objects (arrays of structs with symbolic index make symex explode) */
#define SIT(s) (*SITP[s])
mtbl_res mtbl_iter_next(struct mtbl_iter *it, const uint8_t **k, size_t *lk, const uint8_t **v, size_t *lv)
{
	if (it == NULL) return mtbl_res_failure;
	it->nexts++;
	unsigned s = it->s;            /* buffers are addressed by source number: one level of indirection only (symex cost) */
	KBUF[s] = nondet_u8(); VBUF[2 * s] = nondet_u8(); VBUF[2 * s + 1] = nondet_u8();     /* old buffers are invalidated */
	if (it->pos >= SN[s]) return mtbl_res_failure;
	unsigned e = s * NEs + it->pos++;
	KBUF[s] = SKEY[e]; VBUF[2 * s] = (uint8_t)SVAL[e]; VBUF[2 * s + 1] = (uint8_t)(SVAL[e] >> 8);
	*k = &KBUF[s]; *lk = SLK[e]; *v = &VBUF[2 * s]; *lv = 2;
	return mtbl_res_success;
}
mtbl_res mtbl_iter_seek(struct mtbl_iter *it, const uint8_t *k, size_t lk)
{
	if (it == NULL) return mtbl_res_failure;
	it->seeks++;
	unsigned p = 0;
	for (unsigned i = 0; i < NEs; i++) if (i < SN[it->s] && vg_cmp(&SKEY[it->s * NEs + i], SLK[it->s * NEs + i], k, lk) < 0) p = i + 1;
	it->pos = p;
	return mtbl_res_success;
}
void mtbl_iter_destroy(struct mtbl_iter **it) { if (*it) { (*it)->freed = 1; *it = NULL; } }
static struct mtbl_iter *vg_outer; 
struct mtbl_iter *mtbl_iter_init(mtbl_iter_seek_func s, mtbl_iter_next_func n, mtbl_iter_free_func f, void *clos)
{ static struct mtbl_iter outer; vg_outer = &outer; return &outer; }
struct mtbl_source { int dummy; };
/* bodies for the source constructors (not called in the step harnesses; without bodies the back end invents return objects
 * that pollute every mtbl_iter pointer's value set) */
struct mtbl_iter *mtbl_source_iter(const struct mtbl_source *s) { return NULL; }
struct mtbl_iter *mtbl_source_get(const struct mtbl_source *s, const uint8_t *k, size_t l) { return NULL; }
struct mtbl_iter *mtbl_source_get_prefix(const struct mtbl_source *s, const uint8_t *k, size_t l) { return NULL; }
struct mtbl_iter *mtbl_source_get_range(const struct mtbl_source *s, const uint8_t *k0, size_t l0, const uint8_t *k1, size_t l1) { return NULL; }
struct mtbl_source *mtbl_source_init(mtbl_source_iter_func a, mtbl_source_get_func b, mtbl_source_get_prefix_func c, mtbl_source_get_range_func d, mtbl_source_free_func e, void *clos) { return malloc(sizeof(struct mtbl_source)); }
void mtbl_source_destroy(struct mtbl_source **s) { if (*s) { free(*s); *s = NULL; } }

/* ---------- merge function: an arbitrary function (result length 0..2, arbitrary bytes; may fail) that checks the fold
 * discipline: the left operand is the fold so far (initially the value of an entry not yet used), the right operand is the
 * value of an entry not yet used; every entry's value is unique (SVAL), so "used exactly once" is decidable ---------- */
static unsigned vg_merge_calls; static _Bool vg_merge_fail_now;
static unsigned vg_used;                         /* bit e set: value of entry e has been consumed by the fold */
static uint8_t vg_fold[2]; static size_t vg_fold_len;
static int vg_entry_of(const uint8_t *v, size_t l) { if (l != 2) return -1; uint16_t x = (uint16_t)(v[0] | v[1] << 8); for (unsigned e = 0; e < NS * NEs; e++) if (SVAL[e] == x) return (int)e; return -1; }
static void vg_merge(void *clos, const uint8_t *key, size_t lk, const uint8_t *v0, size_t l0, const uint8_t *v1, size_t l1, uint8_t **out, size_t *lo)
{
	if (vg_merge_calls == 0) {
		int e0 = vg_entry_of(v0, l0);
		VG_P("C04,C06", e0 >= 0 && !(vg_used & (1u << e0)) && SLK[e0] == lk && (lk == 0 || SKEY[e0] == key[0]), "the fold starts from the value of a source entry with that key");
		if (e0 >= 0) vg_used |= 1u << e0;
	} else {
		VG_P("C04,C06", l0 == vg_fold_len && (l0 < 1 || v0[0] == vg_fold[0]) && (l0 < 2 || v0[1] == vg_fold[1]), "the left operand of every later merge call is the result of the previous one (an empty result included)");
	}
	int e1 = vg_entry_of(v1, l1);
	VG_P("C04,C06", e1 >= 0 && !(vg_used & (1u << e1)) && SLK[e1] == lk && (lk == 0 || SKEY[e1] == key[0]), "the right operand is the value of a source entry with that key that has not been used yet");
	if (e1 >= 0) vg_used |= 1u << e1;
	vg_merge_calls++;
	if (vg_merge_fail_now) { *out = NULL; *lo = 0; return; }
	vg_fold_len = nondet_size(); __CPROVER_assume(vg_fold_len <= 2);
	vg_fold[0] = nondet_u8(); vg_fold[1] = nondet_u8();
	*out = malloc(2); (*out)[0] = vg_fold[0]; (*out)[1] = vg_fold[1]; *lo = vg_fold_len;
}

/* ---------- dupsort: an arbitrary total preorder on values (symbolic rank per entry) ---------- */
static uint8_t DR[NS * NEs]; static unsigned vg_dupsort_calls;
static int vg_dupsort(void *clos, const uint8_t *key, size_t lk, const uint8_t *v0, size_t l0, const uint8_t *v1, size_t l1)
{
	int e0 = vg_entry_of(v0, l0), e1 = vg_entry_of(v1, l1); vg_dupsort_calls++;
	VG_P("C04,C06", e0 >= 0 && e1 >= 0 && SLK[e0] == lk && SLK[e1] == lk && (lk == 0 || (SKEY[e0] == key[0] && SKEY[e1] == key[0])), "dupsort is asked about two source entries that carry the same key, with that key");
	if (e0 < 0 || e1 < 0) return 0;
	return DR[e0] < DR[e1] ? -1 : DR[e0] > DR[e1];
}
static void vg_make_sources(void)
{
	vg_ns = NS;     /* empty sources (SN[s] == 0) stand for absent ones */
	for (unsigned s = 0; s < NS; s++) {
		SN[s] = nondet_u32(); __CPROVER_assume(SN[s] <= NEs);
		for (unsigned i = 0; i < NEs; i++) {
			unsigned e = s * NEs + i;
			SKEY[e] = nondet_u8(); SLK[e] = nondet_size(); __CPROVER_assume(SLK[e] <= 1);
			SVAL[e] = (uint16_t)(1u << (2 * e)); DR[e] = nondet_u8();
			if (i > 0 && i < SN[s]) __CPROVER_assume(vg_cmp(&SKEY[e - 1], SLK[e - 1], &SKEY[e], SLK[e]) < 0);   /* each source strictly increasing */
		}
	}
}

/* ---------- arbitrary merger iterator state satisfying M ---------- */
static struct mtbl_merger *vg_m;
static unsigned H[NS];           /* head index of source s (== SN[s]: exhausted, not in the heap) */
static struct entry *ENTP[NS];
#define ENT(s) (*ENTP[s])
static _Bool vg_with_dupsort;
static struct merger_iter *vg_any_state(_Bool with_merge)
{
	vg_m = malloc(sizeof(*vg_m));
	vg_m->opt.merge = with_merge ? vg_merge : NULL; vg_m->opt.merge_clos = NULL; vg_m->opt.dupsort = vg_with_dupsort ? vg_dupsort : NULL; vg_m->opt.dupsort_clos = NULL;
	vg_m->sources = NULL; vg_m->source = NULL;
	struct merger_iter *it = malloc(sizeof(*it));
	it->m = vg_m;
	/* all containers are built with typed allocations: objects that come from calloc() are byte arrays to the back end and
	 * every pointer loaded from them carries the union of all pointers ever stored (symbolic execution then explodes) */
	it->h = malloc(sizeof(struct heap)); it->h->cmp = _mtbl_merger_compare; it->h->clos = vg_m;
	it->h->vec = malloc(sizeof(ptrvec)); it->h->vec->_n = 0; it->h->vec->_n_alloced = NS + 1; it->h->vec->_hint = NS + 1;
	it->h->vec->_v = malloc((NS + 1) * sizeof(void *)); it->h->vec->_p = it->h->vec->_v;
	it->entries = malloc(sizeof(entry_vec)); it->entries->_n = 0; it->entries->_n_alloced = NS + 1; it->entries->_hint = NS + 1;
	it->entries->_v = malloc((NS + 1) * sizeof(struct entry *)); it->entries->_p = it->entries->_v;
	it->iters = malloc(sizeof(iter_vec)); it->iters->_n = 0; it->iters->_n_alloced = NS + 1; it->iters->_hint = NS + 1;
	it->iters->_v = malloc((NS + 1) * sizeof(struct mtbl_iter *)); it->iters->_p = it->iters->_v;
	it->cur_key = malloc(sizeof(ubuf)); it->cur_key->_n = 0; it->cur_key->_n_alloced = 4; it->cur_key->_hint = 4; it->cur_key->_v = malloc(4); it->cur_key->_p = it->cur_key->_v;
	it->cur_val = malloc(sizeof(ubuf)); it->cur_val->_n = 0; it->cur_val->_n_alloced = 8; it->cur_val->_hint = 8; it->cur_val->_v = malloc(8); it->cur_val->_p = it->cur_val->_v;
	it->finished = nondet_bool(); it->pending = 0;
	/* remembered key: empty, or one byte */
	uint8_t c = nondet_u8(); size_t lc = nondet_size(); __CPROVER_assume(lc <= 1);
	ubuf_append(it->cur_key, &c, lc);
	unsigned live = 0;
	for (unsigned s = 0; s < NS; s++) {
		SITP[s] = malloc(sizeof(struct mtbl_iter)); ENTP[s] = malloc(sizeof(struct entry));
		SIT(s).s = s; SIT(s).seeks = SIT(s).nexts = 0; SIT(s).freed = 0;
		if (s >= vg_ns) continue;
		iter_vec_add(it->iters, &SIT(s));
		H[s] = nondet_u32(); __CPROVER_assume(H[s] <= SN[s]);
		_Bool in_entries = SN[s] > 0;          /* a source that was empty at creation has no entry object */
		ENT(s).it = &SIT(s); ENT(s).finished = (H[s] >= SN[s]);
		if (H[s] < SN[s]) {
			unsigned e = s * NEs + H[s];
			SIT(s).pos = H[s] + 1; KBUF[s] = SKEY[e]; VBUF[2 * s] = (uint8_t)SVAL[e]; VBUF[2 * s + 1] = (uint8_t)(SVAL[e] >> 8);
			ENT(s).key = &KBUF[s]; ENT(s).len_key = SLK[e]; ENT(s).val = &VBUF[2 * s]; ENT(s).len_val = 2;
			live++;
		} else { SIT(s).pos = nondet_u32(); __CPROVER_assume(SIT(s).pos <= SN[s]); ENT(s).key = &KBUF[s]; ENT(s).len_key = nondet_size(); ENT(s).val = &VBUF[2 * s]; ENT(s).len_val = 2; }
		if (in_entries) entry_vec_add(it->entries, &ENT(s));
		/* M: consumed (passed) entries are <= the remembered key (when one is remembered); this is what a later forward seek relies on */
		if (lc > 0) for (unsigned i = 0; i < NEs; i++) if (i < SN[s]) {
			int r = vg_cmp(&SKEY[s * NEs + i], SLK[s * NEs + i], &c, lc);
			if (i < H[s]) __CPROVER_assume(r <= 0);     /* entries not yet passed may lie on either side of the remembered key (after a backward seek they lie below it) */
		}
		if (lc == 0) __CPROVER_assume(H[s] == 0 || 1);
	}
	/* the heap holds exactly the live entries, in any arrangement that is a heap */
	unsigned perm[NS]; unsigned cnt = 0;
	_Bool in_swap = nondet_bool();
	for (unsigned j = 0; j < NS; j++) perm[j] = j;
	if (in_swap) { perm[0] = 1; perm[1] = 0; }
#if NS == 3
	unsigned in_rot = nondet_u32(); __CPROVER_assume(in_rot < 3);
	for (unsigned r = 0; r < 2; r++) if (r < in_rot) { unsigned t = perm[0]; perm[0] = perm[1]; perm[1] = perm[2]; perm[2] = t; }
#endif
	for (unsigned j = 0; j < NS; j++) { unsigned s = perm[j]; if (s < vg_ns && H[s] < SN[s]) { heap_add(it->h, &ENT(s)); cnt++; } }
	if (cnt >= 2) __CPROVER_assume(_mtbl_merger_compare(heap_get(it->h, 0), heap_get(it->h, 1), vg_m) <= 0);
#if NS == 3
	if (cnt >= 3) __CPROVER_assume(_mtbl_merger_compare(heap_get(it->h, 0), heap_get(it->h, 2), vg_m) <= 0);
#endif
	__CPROVER_assume(!it->finished || cnt == 0);
	return it;
}

/* oracle: smallest key among the entries at or after the per-source positions P[]; returns 0 if none */
static _Bool vg_min_from(const unsigned *P, uint8_t *mk, size_t *ml)
{
	_Bool have = 0;
	for (unsigned s = 0; s < NS; s++) if (s < vg_ns && P[s] < SN[s]) {
		unsigned e = s * NEs + P[s];
		if (!have || vg_cmp(&SKEY[e], SLK[e], mk, *ml) < 0) { *mk = SKEY[e]; *ml = SLK[e]; have = 1; }
	}
	return have;
}
static void vg_check_M(struct merger_iter *it, const unsigned *P)
{
	/* heap = exactly the sources with an unconsumed head at P[s]; each head entry shows that entry */
	unsigned live = 0;
	for (unsigned s = 0; s < NS; s++) if (s < vg_ns && P[s] < SN[s]) live++;
	VG_P("C04,C05,C06", heap_size(it->h) == live, "the heap holds exactly the sources that still have entries");
	for (unsigned j = 0; j < NS; j++) if (j < heap_size(it->h)) {
		struct entry *e = heap_get(it->h, j); unsigned s = e->it->s;
		VG_P("C04,C05,C06", P[s] < SN[s] && e->len_key == SLK[s * NEs + P[s]] && (e->len_key == 0 || e->key[0] == SKEY[s * NEs + P[s]]) && e->it->pos == P[s] + 1,
		     "each heap entry is the next unconsumed entry of its source");
		if (j > 0) VG_P("C04,C05,C06", _mtbl_merger_compare(heap_get(it->h, 0), e, it->m) <= 0, "the heap top is the smallest head");
	}
}

/* ======================================================================= one mtbl_iter_next from any state */
void h_merger_next_step(void)
{
	vg_make_sources();
	_Bool in_merge = nondet_bool();
	vg_with_dupsort = !in_merge && nondet_bool();
	struct merger_iter *it = vg_any_state(in_merge);
	vg_merge_fail_now = 0;
	unsigned P[NS]; for (unsigned s = 0; s < NS; s++) P[s] = H[s];
	uint8_t mk = 0; size_t ml = 0; _Bool have = vg_min_from(P, &mk, &ml) && !it->finished;
	/* expected set of entries folded into this key */
	unsigned want_used = 0; unsigned cnt = 0;
	if (have) {
		if (in_merge) { for (unsigned s = 0; s < NS; s++) if (s < vg_ns) while (P[s] < SN[s] && vg_cmp(&SKEY[s * NEs + P[s]], SLK[s * NEs + P[s]], &mk, ml) == 0) { want_used |= 1u << (s * NEs + P[s]); P[s]++; cnt++; } }
		else { /* exactly one entry with the minimal key is emitted; which one is the heap's choice */ }
	}
	const uint8_t *k, *v; size_t lk, lv;
	mtbl_res res = merger_iter_next(it, &k, &lk, &v, &lv);
	VG_REACH("merger_iter_next returns");
	VG_P("C04,C05,C06", (res == mtbl_res_success) == have, "next succeeds iff some source still has an entry");
	if (res == mtbl_res_success && have) {
		VG_REACH("merger_iter_next succeeds");
		VG_P("C04,C05,C06", lk == ml && (lk == 0 || k[0] == mk), "next returns the smallest key among the sources' next entries (ascending order; the empty key included)");
		uint16_t got = (lv == 2) ? (uint16_t)(v[0] | v[1] << 8) : 0;
		if (in_merge) {
			if (cnt >= 2) {
				VG_P("C04,C06", vg_used == want_used && vg_merge_calls == cnt - 1, "every value the sources hold for that key is used by the fold exactly once");
				VG_P("C04,C06", lv == vg_fold_len && (lv < 1 || v[0] == vg_fold[0]) && (lv < 2 || v[1] == vg_fold[1]), "the value returned is the result of the last merge call (an empty merged value included)");
			} else {
				VG_P("C04,C06", vg_merge_calls == 0 && lv == 2 && vg_entry_of(v, lv) >= 0 && (1u << vg_entry_of(v, lv)) == want_used, "a key present in a single source passes through unchanged");
			}
			vg_check_M(it, P);
		} else {
			VG_P("C04,C06", lv == 2, "value length");
			/* the emitted entry is one of the entries with the minimal key; its source advanced by one */
			unsigned who = NS;
			for (unsigned s = 0; s < NS; s++) if (s < vg_ns && P[s] < SN[s] && SVAL[s * NEs + P[s]] == got && vg_cmp(&SKEY[s * NEs + P[s]], SLK[s * NEs + P[s]], &mk, ml) == 0) who = s;
			VG_P("C04,C06", who < NS && vg_merge_calls == 0, "without a merge function every source entry is emitted unchanged, smallest key first");
			if (vg_with_dupsort && who < NS) for (unsigned s = 0; s < NS; s++) if (s < vg_ns && s != who && P[s] < SN[s] && vg_cmp(&SKEY[s * NEs + P[s]], SLK[s * NEs + P[s]], &mk, ml) == 0)
				VG_P("C04,C06", DR[who * NEs + P[who]] <= DR[s * NEs + P[s]], "entries with equal keys are emitted in the order of the dupsort function");
			if (who < NS) { P[who]++; vg_check_M(it, P); }
		}
		VG_P("C04,C05,C06", ubuf_size(it->cur_key) == lk && k == ubuf_data(it->cur_key), "the returned key is the iterator's own copy (sources may invalidate their buffers)");
	}
}

/* ======================================================================= merge function failure */
void h_merger_fail_step(void)
{
	vg_make_sources();
	struct merger_iter *it = vg_any_state(1);
	vg_merge_fail_now = 1;
	unsigned P[NS]; for (unsigned s = 0; s < NS; s++) P[s] = H[s];
	uint8_t mk = 0; size_t ml = 0; _Bool have = vg_min_from(P, &mk, &ml) && !it->finished;
	unsigned cnt = 0;
	if (have) for (unsigned s = 0; s < NS; s++) if (s < vg_ns) { unsigned p = P[s]; while (p < SN[s] && vg_cmp(&SKEY[s * NEs + p], SLK[s * NEs + p], &mk, ml) == 0) { p++; cnt++; } }
	const uint8_t *k, *v; size_t lk, lv;
	mtbl_res res = merger_iter_next(it, &k, &lk, &v, &lv);
	VG_REACH("merger_iter_next returns (failing merge function)");
	if (have && cnt >= 2) VG_P("C04,C06", res == mtbl_res_failure, "if the merge function reports failure, the call that would have produced that key returns failure");
	if (have && cnt == 1) VG_P("C04,C06", res == mtbl_res_success && vg_merge_calls == 0, "keys present once pass through without calling the merge function");
}

/* ======================================================================= seek then next, from any state */
void h_merger_seek_step(void)
{
	vg_make_sources();
	_Bool in_merge = nondet_bool();
	struct merger_iter *it = vg_any_state(in_merge);
	vg_merge_fail_now = 0;
	uint8_t in_k = nondet_u8(); size_t in_lk = nondet_size(); __CPROVER_assume(in_lk <= 1);
	mtbl_res sres = merger_iter_seek(it, &in_k, in_lk);
	VG_REACH("merger_iter_seek returns");
	VG_P("C05", sres == mtbl_res_success, "seek reports success");
	/* oracle positions: first entry >= k in every source */
	unsigned P[NS];
	for (unsigned s = 0; s < NS; s++) { unsigned p = 0; for (unsigned i = 0; i < NEs; i++) if (i < SN[s] && vg_cmp(&SKEY[s * NEs + i], SLK[s * NEs + i], &in_k, in_lk) < 0) p = i + 1; P[s] = p; }
	vg_check_M(it, P);
	VG_P("C05", !it->pending, "seek leaves no half-built entry");
	/* directly after the seek (a second seek may follow without a next in between): every entry that has been passed is <= the
	 * remembered key, so that a later seek to a key above the remembered one may take the forward path */
	if (ubuf_size(it->cur_key) > 0) for (unsigned s = 0; s < NS; s++) if (s < vg_ns) for (unsigned i = 0; i < NEs; i++) if (i < P[s])
		VG_P("C05", vg_cmp(&SKEY[s * NEs + i], SLK[s * NEs + i], ubuf_data(it->cur_key), ubuf_size(it->cur_key)) <= 0, "invariant M after seek: every entry passed over is <= the remembered key (a seek that only advanced sources must remember its target)");
	uint8_t mk = 0; size_t ml = 0; _Bool have = vg_min_from(P, &mk, &ml);
	unsigned want_used = 0, cnt = 0;
	if (have && in_merge) for (unsigned s = 0; s < NS; s++) if (s < vg_ns) { unsigned p = P[s]; while (p < SN[s] && vg_cmp(&SKEY[s * NEs + p], SLK[s * NEs + p], &mk, ml) == 0) { want_used |= 1u << (s * NEs + p); p++; cnt++; } }
	const uint8_t *k, *v; size_t lk, lv;
	vg_merge_calls = 0; vg_used = 0;
	mtbl_res res = merger_iter_next(it, &k, &lk, &v, &lv);
	VG_P("C05", (res == mtbl_res_success) == have, "after seek(k), next succeeds iff a merged entry >= k exists");
	if (res == mtbl_res_success && have) {
		VG_REACH("next after seek succeeds");
		VG_P("C05", lk == ml && (lk == 0 || k[0] == mk), "after seek(k), next returns the first merged entry with key >= k");
		if (in_merge && cnt >= 2) VG_P("C05,C04", vg_used == want_used && vg_merge_calls == cnt - 1, "a seek landing on a key that needs merging folds every value for that key exactly once");
	}
	/* the remembered key orders later seeks: every consumed entry is <= it, every unconsumed one >= it */
	if (ubuf_size(it->cur_key) > 0) for (unsigned s = 0; s < NS; s++) if (s < vg_ns) for (unsigned i = 0; i < NEs; i++) if (i < SN[s]) {
		unsigned pos = SIT(s).pos; _Bool inheap = 0;
		for (unsigned j = 0; j < NS; j++) if (j < heap_size(it->h) && ((struct entry *)heap_get(it->h, j))->it == &SIT(s)) inheap = 1;
		unsigned head = inheap ? pos - 1 : SN[s];
		int r = vg_cmp(&SKEY[s * NEs + i], SLK[s * NEs + i], ubuf_data(it->cur_key), ubuf_size(it->cur_key));
		if (i < head) VG_P("C05", r <= 0 || !inheap && 0, "invariant M: entries already passed are <= the remembered key");
		else VG_P("C05", r >= 0, "invariant M: entries not yet passed are >= the remembered key");
	}
}
