/* C04 / C05: libmy/heap.c (real: siftup, siftdown, heap_push, heap_pop, heap_replace, heap_heapify, heap_peek, heap_get,
 * heap_size, heap_clip, heap_reset) from an ARBITRARY valid heap of up to VG_HN elements (so every history of earlier
 * operations), with a user comparator over symbolic keys (ties included).  Contract of the heap as the merger uses it:
 * after every operation the array is a heap again (every element >= its parent, hence the root is a minimum), it holds
 * exactly the elements it should (each item once), and pop/replace/peek return the root.
 * heap_heapify is checked from an arbitrary array (not a heap). */
#include "libmy/heap.c"
#include "spec/ghost.h"
#ifndef VG_HN
#define VG_HN 8
#endif
void *realloc(void *p, size_t n) { VG_A(0, "no vector growth expected in this capped harness"); __CPROVER_assume(0); return p; }

static int vg_keys[VG_HN + 1];
static unsigned vg_cmp_calls;
static int vg_cmp(const void *a, const void *b, void *clos)
{
	vg_cmp_calls++;
	VG_P("C04,C06", clos == (void *)vg_keys, "the comparator receives the closure given at heap_init");
	int x = *(const int *)a, y = *(const int *)b;
	return x < y ? -1 : x > y;
}
static struct heap *vg_any_heap(size_t n, _Bool valid)
{
	struct heap *h = malloc(sizeof(*h));
	h->cmp = vg_cmp; h->clos = vg_keys;
	h->vec = malloc(sizeof(ptrvec));
	h->vec->_n_alloced = VG_HN + 1; h->vec->_hint = VG_HN + 1; h->vec->_n = n;
	h->vec->_v = malloc((VG_HN + 1) * sizeof(void *));
	h->vec->_p = &h->vec->_v[n];
	/* slot i holds item i: any arrangement of n distinct items is this one up to renaming the items */
	for (size_t i = 0; i <= VG_HN; i++) { vg_keys[i] = nondet_int(); if (i < n) h->vec->_v[i] = &vg_keys[i]; }
	if (valid) for (size_t i = 1; i <= VG_HN; i++) if (i < n) __CPROVER_assume(*(int *)h->vec->_v[(i - 1) / 2] <= *(int *)h->vec->_v[i]);
	return h;
}
static void vg_check_heap(struct heap *h, size_t n, const char *unused)
{
	VG_P("C04,C05,C06", heap_size(h) == n, "the heap holds the expected number of elements");
	size_t in_i = nondet_size();
	if (in_i >= 1 && in_i < n)
		VG_P("C04,C05,C06", *(int *)h->vec->_v[(in_i - 1) / 2] <= *(int *)h->vec->_v[in_i], "heap order: no element is smaller than its parent (so the root is a minimum)");
	if (in_i < n)
		VG_P("C04,C05,C06", n == 0 || *(int *)h->vec->_v[0] <= *(int *)h->vec->_v[in_i], "the root is a minimum of the heap");
}
/* number of slots holding item p */
static unsigned vg_count(struct heap *h, size_t n, void *p)
{ unsigned c = 0; for (size_t i = 0; i <= VG_HN; i++) if (i < n && h->vec->_v[i] == p) c++; return c; }

void h_heap_step(void)
{
	size_t in_n = nondet_size(); __CPROVER_assume(in_n <= VG_HN);
	size_t in_item = nondet_size(); __CPROVER_assume(in_item <= VG_HN);      /* universal item */
	void *item = &vg_keys[in_item];
#if VG_HOP == 0
	{            /* push onto a heap of < VG_HN+1 elements */
		struct heap *h = vg_any_heap(in_n, 1);
		unsigned before = vg_count(h, in_n, item);
		heap_push(h, &vg_keys[in_n]);                                     /* a new item (index n is not in the heap) */
		VG_REACH("heap_push returns");
		vg_check_heap(h, in_n + 1, "");
		VG_P("C04,C05,C06", vg_count(h, in_n + 1, item) == before + (in_item == in_n), "push adds exactly the new item and keeps every other element once");
	}
#elif VG_HOP == 1
	{     /* pop */
		struct heap *h = vg_any_heap(in_n, 1);
		void *root = in_n ? h->vec->_v[0] : NULL;
		unsigned before = vg_count(h, in_n, item);
		void *r = heap_pop(h);
		VG_REACH("heap_pop returns");
		VG_P("C04,C05,C06", r == root, "pop returns the root (NULL on an empty heap)");
		vg_check_heap(h, in_n ? in_n - 1 : 0, "");
		VG_P("C04,C05,C06", vg_count(h, in_n ? in_n - 1 : 0, item) == before - (in_n && item == root), "pop removes exactly the root and keeps every other element once");
	}
#elif VG_HOP == 2
	{     /* replace the root by a new item */
		struct heap *h = vg_any_heap(in_n, 1);
		void *root = in_n ? h->vec->_v[0] : NULL;
		unsigned before = vg_count(h, in_n, item);
		void *r = heap_replace(h, &vg_keys[in_n]);
		VG_REACH("heap_replace returns");
		VG_P("C04,C05,C06", r == root, "replace returns the old root (NULL on an empty heap)");
		vg_check_heap(h, in_n, "");
		if (in_n) VG_P("C04,C05,C06", vg_count(h, in_n, item) == before - (item == root) + (in_item == in_n), "replace swaps exactly the root for the new item");
	}
#elif VG_HOP == 3
	{     /* heapify an arbitrary array */
		struct heap *h = vg_any_heap(in_n, 0);
		unsigned before = vg_count(h, in_n, item);
		heap_heapify(h);
		VG_REACH("heap_heapify returns");
		vg_check_heap(h, in_n, "");
		VG_P("C04,C05,C06", vg_count(h, in_n, item) == before, "heapify permutes the elements (none lost, none duplicated)");
	}
#elif VG_HOP == 4
	{     /* observers and clip/reset/add */
		struct heap *h = vg_any_heap(in_n, 1);
		size_t in_i = nondet_size(), in_c = nondet_size();
		VG_P("C04,C05,C06", heap_peek(h) == (in_n ? h->vec->_v[0] : NULL), "peek returns the root without removing it");
		VG_P("C04,C05,C06", heap_size(h) == in_n, "size is the number of elements");
		if (in_n > 0) VG_P("C04,C05,C06", heap_get(h, in_i) == (in_i < in_n ? h->vec->_v[in_i] : NULL), "get(i) returns slot i, NULL beyond the end");
		heap_add(h, &vg_keys[in_n]);
		VG_P("C05", heap_size(h) == in_n + 1 && h->vec->_v[in_n] == &vg_keys[in_n] && vg_count(h, in_n, item) == (in_item < in_n), "add appends without reordering");
		heap_clip(h, in_c);
		VG_P("C05", heap_size(h) == (in_c < in_n + 1 ? in_c : in_n + 1), "clip truncates to at most n elements");
		heap_reset(h);
		VG_P("C05", heap_size(h) == 0 && heap_peek(h) == NULL, "reset empties the heap");
		VG_REACH("observers return");
	}
#endif
}
