/* C04 (observation path mtbl_source_write): mtbl_source_write (mtbl/source.c, real) under DFCC with a loop contract, for a source
 * of ANY number of entries: every entry its iterator yields is handed to the writer exactly once, unchanged, in order, before
 * the next is fetched; the first refusal stops the loop and is the result; the iterator is destroyed on every path. */
#include "mtbl/source.c"
#include "spec/pump.spec.h"
struct { unsigned calls; const struct mtbl_source *s; } vg_si;
struct mtbl_iter *mtbl_source_iter__cap(const struct mtbl_source *s)
__CPROVER_requires(vg_si.calls == 0)
__CPROVER_assigns(__CPROVER_object_whole(&vg_si))
__CPROVER_ensures(vg_si.calls == 1 && vg_si.s == s && __CPROVER_return_value == vg_the_iter)
;
mtbl_res mtbl_source_write__spec(const struct mtbl_source *s, struct mtbl_writer *w)
__CPROVER_requires(vg_nx.nexts == 0 && vg_nx.yields == 0 && vg_ad.calls == 0 && vg_de.calls == 0 && vg_si.calls == 0 && vg_the_writer == w)
__CPROVER_assigns(__CPROVER_object_whole(&vg_nx), __CPROVER_object_whole(&vg_ad), __CPROVER_object_whole(&vg_de), __CPROVER_object_whole(&vg_si))
__CPROVER_ensures(vg_si.calls == 1 && vg_si.s == s)
__CPROVER_ensures(vg_the_iter == NULL ==> (__CPROVER_return_value == mtbl_res_failure && vg_nx.nexts == 0 && vg_ad.calls == 0 && vg_de.calls == 0))
/* every entry yielded was offered to the writer (the add contract's call-site obligation fixes which one and when) */
__CPROVER_ensures(vg_the_iter != NULL ==> (vg_ad.calls == vg_nx.yields && vg_de.calls == 1 && vg_de.it == vg_the_iter))
/* the loop ends with the source exhausted (success) or at the first refusal (that refusal is the result) */
__CPROVER_ensures((vg_the_iter != NULL && vg_ad.calls > 0 && vg_ad.last != mtbl_res_success) ==> __CPROVER_return_value == vg_ad.last)
__CPROVER_ensures((vg_the_iter != NULL && (vg_ad.calls == 0 || vg_ad.last == mtbl_res_success)) ==> __CPROVER_return_value == mtbl_res_success)
__CPROVER_ensures((vg_the_iter != NULL && (vg_ad.calls == 0 || vg_ad.last == mtbl_res_success)) ==> (vg_nx.nexts >= 1 && vg_nx.last != mtbl_res_success))
;
void h_source_write_dfcc(void) { const struct mtbl_source *s; struct mtbl_writer *w; mtbl_res r = mtbl_source_write(s, w); VG_REACH("mtbl_source_write returns"); }
