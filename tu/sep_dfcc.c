/* C09 / C02 / C01: bytes_shortest_separator (mtbl/bytes.h, real) under DFCC with a loop contract, for keys of ANY length.
 * Precondition as at its only call site (mtbl_writer_add: start = last key of the block just closed, limit = the key being
 * added, start < limit by the ordering gate).  Postcondition, in universal-index form (vg_k is never assigned, so every
 * clause holds for every index): the result is
 *   (E1) start unchanged, or
 *   (E2) start cut after its first byte that differs from limit, that byte incremented and still below limit's byte, or
 *   (E3) start cut two bytes after that position, the two bytes read as a big-endian number incremented, not above limit's
 *        two bytes, and strictly shorter than limit.
 * Each of the three is, by the definition of the bytewise order, a key k with  start <= k < limit  (E2/E3: witness index
 * = new length-1 / new length-2; E1: the precondition) -- the index separator rule of C09 and the premise of C02's
 * "queries between two blocks".  Bounded end-to-end confirmation with the real comparator: group wr_add_step. */
#include "mtbl/mtbl-private.h"
#include "mtbl/bytes.h"
#include "spec/ghost.h"

size_t vg_k;                 /* universal index: never assigned */
#define VG_MAXLEN ((size_t)1 << 40)
#define BE16(p, i) ((unsigned)(((unsigned)(p)[(i)] << 8) | (unsigned)(p)[(i) + 1]))

int bytes_compare__any(const uint8_t *a, size_t la, const uint8_t *b, size_t lb)
__CPROVER_requires(1) __CPROVER_assigns() __CPROVER_ensures(1)
;
void bytes_shortest_separator__spec(ubuf *start, const uint8_t *limit, size_t len_limit)
__CPROVER_requires(__CPROVER_is_fresh(start, sizeof(*start)))
__CPROVER_requires(start->_n <= VG_MAXLEN && start->_n_alloced >= start->_n && start->_n_alloced >= 1 && start->_n_alloced <= VG_MAXLEN + 1)
/* two spare bytes only so that the entry snapshots old(start->_v[vg_k]), old(start->_v[vg_k+1]) are readable for every vg_k <= _n_alloced */
__CPROVER_requires(__CPROVER_is_fresh(start->_v, start->_n_alloced + 2) && vg_k <= start->_n_alloced)
__CPROVER_requires(len_limit <= VG_MAXLEN && __CPROVER_is_fresh(limit, len_limit + 1))
__CPROVER_assigns(start->_n, start->_p, __CPROVER_object_whole(start->_v))
/* sizes */
__CPROVER_ensures(start->_n <= __CPROVER_old(start->_n))
/* every byte kept below the cut is either untouched, or one of the (at most two) rewritten bytes at the end */
__CPROVER_ensures(
    /* E1 unchanged */
    (start->_n == __CPROVER_old(start->_n) &&
        (vg_k < start->_n ==> start->_v[vg_k] == __CPROVER_old(start->_v[vg_k])))
 || /* E2 one byte incremented */
    (start->_n >= 1 && start->_n <= len_limit &&
        (vg_k < start->_n - 1 ==> (start->_v[vg_k] == __CPROVER_old(start->_v[vg_k]) && start->_v[vg_k] == limit[vg_k])) &&
        (vg_k == start->_n - 1 ==> (__CPROVER_old(start->_v[vg_k]) < start->_v[vg_k] && start->_v[vg_k] < limit[vg_k])))
 || /* E3 two bytes incremented as a big-endian number */
    (start->_n >= 2 && start->_n < len_limit && start->_n < __CPROVER_old(start->_n) &&
        (vg_k < start->_n - 2 ==> (start->_v[vg_k] == __CPROVER_old(start->_v[vg_k]) && start->_v[vg_k] == limit[vg_k])) &&
        (vg_k == start->_n - 2 ==> (
            (unsigned)((__CPROVER_old(start->_v[vg_k]) << 8) | __CPROVER_old(start->_v[vg_k + 1])) < BE16(start->_v, vg_k)
            && BE16(start->_v, vg_k) <= BE16(limit, vg_k)))))
;
void h_sep_dfcc(void)
{
	ubuf *s; const uint8_t *l; size_t ll;
	bytes_shortest_separator(s, l, ll);
	VG_REACH("bytes_shortest_separator returns");
}
