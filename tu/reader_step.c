/* Reader induction steps: ALL of /repo/mtbl/reader.c runs for real (reader_iter, reader_iter_init, reader_get*, reader_iter_seek,
 * reader_iter_next, needs_index_seek, get_block, get_block_at_index, reader_iter_free) with the real iter.c/source.c/varint.c/
 * fixed.c and ubuf code.  mtbl/block.c is replaced by its abstract contract (a block = sorted entries; seek = lower bound),
 * which is checked against the real block.c in groups blk_*.  The table is a symbolic tiny table (<= 3 blocks x <= 3
 * entries, keys <= 2 bytes, separators anywhere in the legal interval, v1 or v2 framing, any compression flag,
 * verify_checksums on/off with possibly damaged blocks).  Iterator states are ARBITRARY states satisfying the
 * representation invariant RI (hence every history of next/seek calls). */
#include "mtbl/reader.c"
#include "mtbl/iter.c"
#include "spec/ghost.h"
void *realloc(void *p, size_t n) { VG_A(0, "no vector growth expected in this capped harness"); __CPROVER_assume(0); return p; }

#define NB 3
#define NE 3
#define KL 2
/* NOTE (tool quirk, cbmc 6.11): a pointer to a row of a 2-D array that is a MEMBER OF A STRUCT, taken with a symbolic
 * row index, reads wrong bytes (minimal reproducer in DESIGN.md R14).  The table therefore lives in flat global arrays. */
struct vg_ent { const uint8_t *k; size_t lk; const uint8_t *v; };
#define NENT (NB * NE)
static uint8_t TK[NENT * KL]; static size_t TLK[NENT]; static uint8_t TV[NENT];     /* data entries, flat index j*NE+i */
static uint8_t SK[NB * KL]; static size_t SLK[NB];                                   /* index keys (separators) */
static uint8_t OFFENC[NB * 2];                                                       /* index values: varint(offset) */
static struct { unsigned nblocks; unsigned ne[NB]; uint64_t off[NB]; _Bool bad[NB]; uint32_t crc[NB]; } T;
static struct mtbl_reader *R;
static uint8_t vg_filebuf[64 + 16];
#define PAYLEN 6

static int vg_cmp(const uint8_t *a, size_t la, const uint8_t *b, size_t lb)
{
	for (size_t i = 0; i < KL; i++) { if (i >= la || i >= lb) break; if (a[i] != b[i]) return a[i] < b[i] ? -1 : 1; }
	return la < lb ? -1 : la > lb;
}

/* ---------------- abstract mtbl/block.c ---------------- */
struct block { int id; bool needs_free; uint8_t *data; };
struct block_iter { struct block *block; unsigned pos; };
static int vg_blocks_live, vg_iters_live; static unsigned vg_block_inits;
static unsigned vg_n(const struct block *b) { return b->id < 0 ? T.nblocks : T.ne[b->id]; }
static struct vg_ent vg_ent_at(int id, unsigned i)
{
	struct vg_ent e;
	if (id < 0) { e.k = &SK[KL * i]; e.lk = SLK[i]; e.v = &OFFENC[2 * i]; }
	else { unsigned f = (unsigned)id * NE + i; e.k = &TK[KL * f]; e.lk = TLK[f]; e.v = &TV[f]; }
	return e;
}
static size_t vg_hdr(void) { return R->m.file_version == MTBL_FORMAT_V1 ? 8 : 5; }
static uint8_t *vg_decomp[NB];
struct block *block_init(uint8_t *data, size_t size, bool needs_free)
{
	struct block *b = malloc(sizeof(*b));
	b->needs_free = needs_free; b->data = data; b->id = -2;
	for (unsigned j = 0; j < NB; j++)
		if (j < T.nblocks && ((!needs_free && data == R->data + T.off[j] + vg_hdr()) || (needs_free && data == vg_decomp[j]))) b->id = (int)j;
	VG_P("C01,C11,C12", b->id >= 0 && size == PAYLEN, "a data block is decoded from exactly the stored bytes the index points at");
	VG_P("C12", !(R->opt.verify_checksums && T.bad[b->id]), "with verify_checksums a block whose checksum does not match is never decoded");
	vg_blocks_live++; vg_block_inits++;
	return b;
}
void block_destroy(struct block **b) { if (*b) { if ((*b)->id >= 0) vg_blocks_live--; if ((*b)->needs_free) free((*b)->data); free(*b); *b = NULL; } }
struct block_iter *block_iter_init(struct block *b) { struct block_iter *bi = malloc(sizeof(*bi)); bi->block = b; bi->pos = vg_n(b); vg_iters_live++; return bi; }
void block_iter_destroy(struct block_iter **bi) { if (*bi) { vg_iters_live--; free(*bi); *bi = NULL; } }
bool block_iter_valid(const struct block_iter *bi) { return bi->pos < vg_n(bi->block); }
void block_iter_seek_to_first(struct block_iter *bi) { bi->pos = 0; }
void block_iter_seek(struct block_iter *bi, const uint8_t *key, size_t lk)
{
	unsigned p = 0;
	for (unsigned i = 0; i < NE; i++) if (i < vg_n(bi->block)) { struct vg_ent e = vg_ent_at(bi->block->id, i); if (vg_cmp(e.k, e.lk, key, lk) < 0) p = i + 1; }
	bi->pos = p;      /* lower bound: first entry >= key, or past the end */
}
bool block_iter_next(struct block_iter *bi) { if (!block_iter_valid(bi)) return false; bi->pos++; return block_iter_valid(bi); }
bool block_iter_get(struct block_iter *bi, const uint8_t **key, size_t *lk, const uint8_t **val, size_t *lv)
{
	if (!block_iter_valid(bi)) return false;
	struct vg_ent e = vg_ent_at(bi->block->id, bi->pos);
	if (key) { *key = e.k; *lk = e.lk; }
	if (val) { *val = e.v; *lv = 1; }
	return true;
}
uint32_t mtbl_crc32c(const uint8_t *buf, size_t size)
{
	for (unsigned j = 0; j < NB; j++) if (j < T.nblocks && buf == R->data + T.off[j] + vg_hdr() && size == PAYLEN) return T.crc[j];
	VG_P("C12", 0, "the checksum is computed over exactly the stored bytes of the block");
	return nondet_u32();
}
mtbl_res mtbl_decompress(mtbl_compression_type t, const uint8_t *in, const size_t n, uint8_t **out, size_t *outn)
{
	for (unsigned j = 0; j < NB; j++) if (j < T.nblocks && in == R->data + T.off[j] + vg_hdr() && n == PAYLEN) {
		VG_P("C01,C11", t == R->m.compression_algorithm, "blocks are decompressed with the algorithm named in the trailer");
		vg_decomp[j] = malloc(PAYLEN); *out = vg_decomp[j]; *outn = PAYLEN; return mtbl_res_success;
	}
	VG_P("C01,C11", 0, "decompression input is exactly the stored bytes of the block");
	return mtbl_res_failure;
}

/* ---------------- the symbolic table + reader ---------------- */
static void vg_make_table(void)
{
	T.nblocks = nondet_u32(); __CPROVER_assume(T.nblocks >= 1 && T.nblocks <= NB);
	const uint8_t *pk = NULL; size_t pl = 0;
	for (unsigned j = 0; j < NB; j++) {
		T.ne[j] = nondet_u32(); __CPROVER_assume(T.ne[j] >= 1 && T.ne[j] <= NE);
		for (unsigned i = 0; i < NE; i++) {
			unsigned f = j * NE + i;
			TLK[f] = nondet_size(); __CPROVER_assume(TLK[f] <= KL);
			for (int c = 0; c < KL; c++) TK[KL * f + c] = nondet_u8();
			TV[f] = nondet_u8();
			if (j < T.nblocks && i < T.ne[j]) {
				if (pk) __CPROVER_assume(vg_cmp(pk, pl, &TK[KL * f], TLK[f]) < 0);   /* strictly increasing */
				pk = &TK[KL * f]; pl = TLK[f];
			}
		}
		SLK[j] = nondet_size(); __CPROVER_assume(SLK[j] <= KL);
		for (int c = 0; c < KL; c++) SK[KL * j + c] = nondet_u8();
		if (j < T.nblocks) {      /* last key of block <= separator; the next block's first key must exceed the separator */
			__CPROVER_assume(vg_cmp(pk, pl, &SK[KL * j], SLK[j]) <= 0);
			pk = &SK[KL * j]; pl = SLK[j];
		}
		T.off[j] = 16 * j; OFFENC[2 * j] = (uint8_t)(16 * j);
		T.bad[j] = nondet_bool(); T.crc[j] = nondet_u32();
	}
}
static void vg_make_reader(void)
{
	R = malloc(sizeof(*R));
	R->m.file_version = nondet_bool() ? MTBL_FORMAT_V1 : MTBL_FORMAT_V2;
	R->m.compression_algorithm = nondet_u64(); __CPROVER_assume(R->m.compression_algorithm <= MTBL_COMPRESSION_ZSTD);
	R->opt.verify_checksums = nondet_bool(); R->opt.madvise_random = 0;
	R->data = vg_filebuf; R->len_data = sizeof(vg_filebuf);
	for (unsigned j = 0; j < NB; j++) {
		uint8_t *p = vg_filebuf + 16 * j;
		uint32_t stored = T.bad[j] ? T.crc[j] ^ (1u + (nondet_u32() | 0)) : T.crc[j];
		if (T.bad[j]) __CPROVER_assume(stored != T.crc[j]);
		if (R->m.file_version == MTBL_FORMAT_V1) { p[0] = PAYLEN; p[1] = p[2] = p[3] = 0; mtbl_fixed_encode32(p + 4, stored); }
		else { p[0] = PAYLEN; mtbl_fixed_encode32(p + 1, stored); }
	}
	static struct block idx; idx.id = -1; idx.needs_free = 0; idx.data = NULL;
	R->index = &idx; R->source = NULL;
}

/* oracle: position (flat) of the first entry >= key; entries are numbered block-major */
/* flat numbering of the live entries, block-major */
static _Bool vg_flat(unsigned f, struct vg_ent *out) { unsigned c = 0; for (unsigned j = 0; j < NB; j++) for (unsigned i = 0; i < NE; i++) if (j < T.nblocks && i < T.ne[j]) { if (c == f) { *out = vg_ent_at((int)j, i); return 1; } c++; } return 0; }
static unsigned vg_total(void) { unsigned c = 0; for (unsigned j = 0; j < NB; j++) if (j < T.nblocks) c += T.ne[j]; return c; }
static unsigned vg_lower(const uint8_t *k, size_t lk) { unsigned c = 0, r = 0; for (unsigned j = 0; j < NB; j++) for (unsigned i = 0; i < NE; i++) if (j < T.nblocks && i < T.ne[j]) { struct vg_ent e = vg_ent_at((int)j, i); if (vg_cmp(e.k, e.lk, k, lk) < 0) r = c + 1; c++; } return r; }
static _Bool vg_in_bound(const struct reader_iter *it, const struct vg_ent *e)
{
	if (it->it_type == READER_ITER_TYPE_ITER) return 1;
	const uint8_t *bk = ubuf_data(it->k); size_t bl = ubuf_size(it->k);
	if (it->it_type == READER_ITER_TYPE_GET) return vg_cmp(e->k, e->lk, bk, bl) == 0;
	if (it->it_type == READER_ITER_TYPE_GET_RANGE) return vg_cmp(e->k, e->lk, bk, bl) <= 0;
	/* prefix */
	if (bl > e->lk) return 0;
	for (size_t i = 0; i < KL; i++) if (i < bl && e->k[i] != bk[i]) return 0;
	return 1;
}
/* check one mtbl_iter_next answer against the oracle position *f; advances *f; returns 0 when the iterator must be dead */
static _Bool vg_expect_next(struct reader_iter *it, unsigned *f, _Bool *dead, const char *unused)
{
	const uint8_t *k, *v; size_t lk, lv;
	mtbl_res res = reader_iter_next(it, &k, &lk, &v, &lv);
	struct vg_ent ent; _Bool have = vg_flat(*f, &ent); const struct vg_ent *e = &ent;
	_Bool want = !*dead && have && vg_in_bound(it, e);
	VG_P("C03,C02,C01,C11,C05", (res == mtbl_res_success) == want, "next succeeds iff the next entry in key order exists and satisfies the iterator's bound (failure is sticky)");
	if (res == mtbl_res_success && want) {
		VG_P("C03,C02,C01,C11,C05", k == e->k && lk == e->lk && v == e->v && lv == 1, "next returns exactly the next entry in key order (key and value)");
		(*f)++;
	} else *dead = 1;
	return res == mtbl_res_success;
}

/* arbitrary iterator state satisfying RI */
static struct reader_iter *vg_any_iter(void)
{
	struct reader_iter *it = malloc(sizeof(*it));
	it->r = R;
	it->index_iter = block_iter_init(R->index);
	it->index_iter->pos = nondet_u32(); __CPROVER_assume(it->index_iter->pos <= T.nblocks);
	it->first = nondet_bool(); it->valid = nondet_bool();
	it->it_type = nondet_u32(); __CPROVER_assume(it->it_type <= READER_ITER_TYPE_GET_RANGE);
	it->k = NULL;
	if (it->it_type != READER_ITER_TYPE_ITER) {
		it->k = ubuf_init(KL); size_t bl = nondet_size(); __CPROVER_assume(bl <= KL);
		uint8_t bk[KL]; for (int i = 0; i < KL; i++) bk[i] = nondet_u8();
		ubuf_append(it->k, bk, bl);
	}
	it->block_offset = nondet_u64();
	if (nondet_bool()) { it->b = NULL; it->bi = NULL; __CPROVER_assume(it->index_iter->pos == T.nblocks); __CPROVER_assume(!it->valid); }
	else {
		unsigned j = nondet_u32(); __CPROVER_assume(j < T.nblocks);
		__CPROVER_assume(!(R->opt.verify_checksums && T.bad[j]));            /* a held block was loaded, hence verified */
		it->b = malloc(sizeof(struct block)); it->b->id = (int)j; it->b->needs_free = 0; it->b->data = NULL; vg_blocks_live++;
		it->bi = block_iter_init(it->b); it->bi->pos = nondet_u32(); __CPROVER_assume(it->bi->pos <= T.ne[j]);
		it->block_offset = T.off[j];                                          /* RI 1: block_offset names the block held */
		__CPROVER_assume(it->index_iter->pos == T.nblocks || it->index_iter->pos == j);   /* RI 4 */
		__CPROVER_assume(!(it->valid && !it->first) || it->bi->pos < T.ne[j]);            /* RI 3 */
		__CPROVER_assume(!it->valid || it->index_iter->pos == j);                         /* RI 5: a valid iterator's index position is the block held */
	}
	return it;
}

static void vg_assert_RI(struct reader_iter *it)
{
	VG_P("C03", (it->b == NULL) == (it->bi == NULL), "iterator invariant: a block iterator exists exactly when a block is held");
	VG_P("C03", it->b == NULL || (it->bi->block == it->b && it->block_offset == T.off[it->b->id]), "iterator invariant: block_offset names the block held");
	VG_P("C03", it->b == NULL || !block_iter_valid(it->index_iter) || it->index_iter->pos == (unsigned)it->b->id, "iterator invariant: the index iterator points at the block held");
	VG_P("C03", !it->valid || (it->b != NULL && block_iter_valid(it->index_iter)), "iterator invariant: a valid iterator holds the block its index entry names");
	VG_P("C03", !(it->valid && !it->first) || block_iter_valid(it->bi), "iterator invariant: after a successful next the block iterator sits on the entry returned");
}

/* ======================================================================= seek then next, from any state */
void h_reader_seek_step(void)
{
	vg_make_table(); vg_make_reader();
	struct reader_iter *it = vg_any_iter();
	uint8_t in_key[KL]; size_t in_lk = nondet_size(); __CPROVER_assume(in_lk <= KL);
	for (int i = 0; i < KL; i++) in_key[i] = nondet_u8();
	/* "k at or after the start of the iterator's range": for get/prefix the range starts at the bound key itself */
	if (it->it_type == READER_ITER_TYPE_GET || it->it_type == READER_ITER_TYPE_GET_PREFIX)
		__CPROVER_assume(vg_cmp(in_key, in_lk, ubuf_data(it->k), ubuf_size(it->k)) >= 0);
	int live0 = vg_blocks_live;
	mtbl_res sres = reader_iter_seek(it, in_key, in_lk);
	VG_REACH("reader_iter_seek returns");
	VG_P("C03", sres == mtbl_res_success, "seek reports success");
	VG_P("C18", vg_blocks_live <= 1 && vg_iters_live <= 2, "an iterator holds at most one decoded data block");
	unsigned f = vg_lower(in_key, in_lk); _Bool dead = 0;
	if (vg_expect_next(it, &f, &dead, "")) { if (vg_expect_next(it, &f, &dead, "")) (void)vg_expect_next(it, &f, &dead, ""); }
	(void)vg_expect_next(it, &f, &dead, "");
	VG_REACH("seek/next sequence completes");
	vg_assert_RI(it);
	reader_iter_free(it);
	VG_P("C18", vg_blocks_live == 0 && vg_iters_live == 0, "freeing the iterator releases its block and both block iterators");
}

/* ======================================================================= next from any state (no seek) */
void h_reader_next_step(void)
{
	vg_make_table(); vg_make_reader();
	struct reader_iter *it = vg_any_iter();
	/* oracle position of the state: entry the iterator is about to return */
	unsigned f = 0; _Bool dead = !it->valid;
	if (it->b) { for (unsigned j = 0; j < NB; j++) if ((int)j < it->b->id) f += T.ne[j]; f += it->bi->pos + (it->first ? 0 : 1); }
	else f = vg_total();
	/* a non-first valid iterator sits on an entry inside its bound; a first one anywhere */
	(void)vg_expect_next(it, &f, &dead, "");
	(void)vg_expect_next(it, &f, &dead, "");
	VG_REACH("next sequence completes");
	vg_assert_RI(it);
	reader_iter_free(it);
	VG_P("C18", vg_blocks_live == 0 && vg_iters_live == 0, "freeing the iterator releases its block and both block iterators");
}

/* ======================================================================= lookups: iter / get / get_prefix / get_range */
void h_reader_lookup(void)
{
	vg_make_table(); vg_make_reader();
	uint8_t q0[KL], q1[KL]; size_t l0 = nondet_size(), l1 = nondet_size(); __CPROVER_assume(l0 <= KL && l1 <= KL);
	for (int i = 0; i < KL; i++) { q0[i] = nondet_u8(); q1[i] = nondet_u8(); }
	unsigned in_kind = nondet_u32(); __CPROVER_assume(in_kind <= 3);
	struct mtbl_iter *mi;
	if (in_kind == 0) mi = reader_iter(R);
	else if (in_kind == 1) mi = reader_get(R, q0, l0);
	else if (in_kind == 2) mi = reader_get_prefix(R, q0, l0);
	else mi = reader_get_range(R, q0, l0, q1, l1);
	VG_REACH("lookup returns");
	unsigned f = in_kind == 0 ? 0 : vg_lower(q0, l0);
	if (mi == NULL) {
		/* NULL = empty result: legal only when no entry >= query exists at all */
		VG_P("C02,C05", in_kind != 0 && f == vg_total(), "a lookup returns no iterator only when no entry >= the query exists");
		VG_P("C18", vg_blocks_live == 0 && vg_iters_live == 0, "a failed lookup releases everything");
		return;
	}
	struct reader_iter *it = mi->clos; _Bool dead = 0;
	VG_P("C02,C05", it->it_type == in_kind, "iterator kind");
	if (vg_expect_next(it, &f, &dead, "")) if (vg_expect_next(it, &f, &dead, "")) if (vg_expect_next(it, &f, &dead, "")) (void)vg_expect_next(it, &f, &dead, "");
	(void)vg_expect_next(it, &f, &dead, "");
	VG_REACH("lookup drain completes");
	mtbl_iter_destroy(&mi);
	VG_P("C18", vg_blocks_live == 0 && vg_iters_live == 0, "destroying the iterator releases its block and both block iterators");
}
