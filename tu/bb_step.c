/* Block builder induction steps + encoder/decoder inverse lemmas.
 * Real code: mtbl/block_builder.c and mtbl/block.c (both included: statics visible), varint.c, fixed.c (linked), ubuf/vector.
 * Harnesses start from an ARBITRARY builder state satisfying the builder invariant (hence any earlier history). */
#include "mtbl/block_builder.c"
#include "mtbl/block.c"
#include "spec/ghost.h"
/* Vector growth is excluded from this capped harness (the buffers are created large enough): realloc is a cut point.
 * If a run reaches it the auxiliary obligation below fails (=> undecided, never silent).  Growth itself: group vec_grow. */
void *realloc(void *p, size_t n) { VG_A(0, "no vector growth expected in this capped harness"); __CPROVER_assume(0); return p; }

#ifndef VG_KMAX
#define VG_KMAX 4
#endif
#define VG_BUFCAP 64
#define VG_BUFN 16

static unsigned vg_vlen(uint64_t v) { unsigned n = 1; while (v >= 128) { v >>= 7; n++; } return n; }

static ubuf *vg_ubuf(size_t alloc, size_t max_n)
{
	ubuf *u = malloc(sizeof(*u));
	u->_n_alloced = alloc; u->_hint = alloc;
	u->_n = nondet_size(); __CPROVER_assume(u->_n <= max_n && u->_n <= alloc);
	u->_v = malloc(alloc); u->_p = u->_v + u->_n;
	return u;
}
static struct block_builder *vg_any_builder(void)
{
	struct block_builder *b = malloc(sizeof(*b));
	b->block_restart_interval = nondet_size(); b->counter = nondet_size();
	__CPROVER_assume(b->block_restart_interval >= 1 && b->counter <= b->block_restart_interval);
	b->finished = 0;
	b->buf = vg_ubuf(VG_BUFCAP, VG_BUFN);
	b->last_key = vg_ubuf(2 * VG_KMAX, VG_KMAX);
	b->restarts = malloc(sizeof(uint64_vec));
	b->restarts->_n_alloced = 4; b->restarts->_n = nondet_size(); b->restarts->_hint = 4;
	__CPROVER_assume(b->restarts->_n >= 1 && b->restarts->_n <= 3);
	b->restarts->_v = malloc(b->restarts->_n_alloced * sizeof(uint64_t));
	b->restarts->_p = b->restarts->_v + b->restarts->_n;
	return b;
}

/* ============================================================== block_builder_add: one step, content level */
void h_bb_add_step(void)
{
	struct block_builder *b = vg_any_builder();
	uint8_t in_key[VG_KMAX], in_val[VG_KMAX]; size_t in_lk = nondet_size(), in_lv = nondet_size();
	__CPROVER_assume(in_lk <= VG_KMAX && in_lv <= VG_KMAX);
	for (int i = 0; i < VG_KMAX; i++) { in_key[i] = nondet_u8(); in_val[i] = nondet_u8(); }
	size_t n0 = ubuf_size(b->buf), est0 = block_builder_current_size_estimate(b), cnt0 = b->counter, nr0 = uint64_vec_size(b->restarts);
	uint8_t last0[VG_KMAX]; size_t ll0 = ubuf_size(b->last_key);
	for (int i = 0; i < VG_KMAX; i++) last0[i] = (size_t)i < ll0 ? ubuf_data(b->last_key)[i] : 0;
	size_t in_k = nondet_size();            /* universal index */
	uint8_t old_k = (in_k < n0) ? ubuf_data(b->buf)[in_k] : 0;
	_Bool restart = (cnt0 == b->block_restart_interval);
	/* reference longest common prefix */
	size_t lcp = 0; while (lcp < VG_KMAX && lcp < ll0 && lcp < in_lk && last0[lcp] == in_key[lcp]) lcp++;
	size_t shared = restart ? 0 : lcp, nsh = in_lk - shared;

	block_builder_add(b, in_key, in_lk, in_val, in_lv);
	VG_REACH("block_builder_add returns");

	size_t n1 = ubuf_size(b->buf);
	VG_P("C09,C01", n1 == n0 + 3 + nsh + in_lv, "an entry occupies its three header varints, the non-shared key bytes and the value bytes");
	VG_P("C09", block_builder_current_size_estimate(b) == est0 + vg_vlen(shared) + vg_vlen(nsh) + vg_vlen(in_lv) + nsh + in_lv + (restart ? 4 : 0),
	     "the size estimate grows by exactly the entry bytes plus 4 for a new restart point");
	const uint8_t *p = ubuf_data(b->buf);
	VG_P("C09,C01", p[n0] == shared && p[n0 + 1] == nsh && p[n0 + 2] == in_lv, "entry header = varint(shared) varint(non_shared) varint(value length), longest common prefix elided");
	if (in_k < nsh) VG_P("C09,C01", p[n0 + 3 + in_k] == in_key[shared + in_k], "the key suffix follows the header");
	if (in_k < in_lv) VG_P("C09,C01", p[n0 + 3 + nsh + in_k] == in_val[in_k], "the value follows the key suffix");
	if (in_k < n0) VG_P("C09,C01", p[in_k] == old_k, "earlier entries are not disturbed");
	VG_P("C09", uint64_vec_size(b->restarts) == nr0 + (restart ? 1 : 0) && (!restart || uint64_vec_value(b->restarts, nr0) == n0),
	     "a restart point (offset of the entry) is recorded exactly every restart-interval entries");
	VG_P("C09", b->counter == (restart ? 1 : cnt0 + 1) && b->counter <= b->block_restart_interval, "restart cadence counter");
	VG_P("C09,C01", ubuf_size(b->last_key) == in_lk, "the builder remembers the new key (length)");
	if (in_k < in_lk) VG_P("C09,C01", ubuf_data(b->last_key)[in_k] == in_key[in_k], "the builder remembers the new key (bytes)");

	/* inverse lemma: the real decoder on the produced bytes, with the previous key in its key buffer */
	struct block_iter bi;
	bi.data = (uint8_t *)p; bi.restarts = n1; bi.num_restarts = 1; bi.restart_index = 0;
	bi.next = (uint8_t *)p + n0; bi.current = 0;
	bi.key = vg_ubuf(2 * VG_KMAX, 0);
	if (!restart) ubuf_append(bi.key, last0, ll0);
	bi.block = NULL;
	_Bool ok = parse_next_key(&bi);
	VG_P("C01,C11", ok && bi.current == n0, "the decoder finds an entry where the encoder put it");
	VG_P("C01,C11", ubuf_size(bi.key) == in_lk && bi.val_len == in_lv && bi.val == p + n0 + 3 + nsh && bi.next == p + n1, "decoded key length, value and next-entry position equal what was added");
	if (in_k < in_lk) VG_P("C01,C11", ubuf_data(bi.key)[in_k] == in_key[in_k], "decoded key bytes equal the added key");
	if (in_k < in_lv) VG_P("C01,C11", bi.val[in_k] == in_val[in_k], "decoded value bytes equal the added value");
}

/* ============================================================== block_builder_finish + block_init / restart array */
void h_bb_finish_step(void)
{
	struct block_builder *b = vg_any_builder();
	size_t n0 = ubuf_size(b->buf), est0 = block_builder_current_size_estimate(b), nr0 = uint64_vec_size(b->restarts);
	uint64_t r[3]; for (size_t i = 0; i < 3; i++) { if (i < nr0) { __CPROVER_assume(uint64_vec_data(b->restarts)[i] <= n0); r[i] = uint64_vec_data(b->restarts)[i]; } }
	size_t in_k = nondet_size();
	uint8_t old_k = (in_k < n0) ? ubuf_data(b->buf)[in_k] : 0;
	uint8_t *out; size_t outsz;
	block_builder_finish(b, &out, &outsz);
	VG_REACH("block_builder_finish returns");
	VG_P("C09", outsz == est0 && outsz == n0 + 4 * nr0 + 4, "finished block = entries + 32-bit restart array + restart count; its size is the estimate");
	if (in_k < n0) VG_P("C09,C01", out[in_k] == old_k, "finish keeps the entry bytes");
	VG_P("C09", mtbl_fixed_decode32(out + outsz - 4) == nr0, "the last 4 bytes hold the number of restart points");
	if (in_k < nr0) VG_P("C09", mtbl_fixed_decode32(out + n0 + 4 * in_k) == r[in_k], "restart offsets are stored little-endian, in order, after the entries");
	/* inverse: block_init + iterator see the same layout */
	struct block *blk = block_init(out, outsz, false);
	VG_P("C01,C11", blk->size == outsz && blk->restart_offset == n0, "the reader locates the restart array where the writer put it");
	struct block_iter *bi = block_iter_init(blk);
	VG_P("C01,C11", bi->num_restarts == nr0 && bi->restarts == n0, "the reader sees the writer's restart count");
	if (in_k < nr0) VG_P("C01,C11", get_restart_point(bi, (uint32_t)in_k) == r[in_k], "the reader reads back each restart offset");
	/* builder after reset is the empty builder */
	block_builder_reset(b);
	VG_P("C09", block_builder_empty(b) && b->counter == 0 && !b->finished && uint64_vec_size(b->restarts) == 1 && uint64_vec_value(b->restarts, 0) == 0
	     && ubuf_size(b->last_key) == 0 && block_builder_current_size_estimate(b) == 8, "reset gives the empty builder: one restart at offset 0, no remembered key");
}
