/* C06: mtbl_sorter_write (mtbl/sorter.c, real) under DFCC with a loop contract, for ANY number of output entries: refused once
 * iteration has begun (nothing happens), otherwise every entry of the sorter's iterator is handed to the writer exactly once,
 * unchanged, in order; the first refusal stops it and is the result; the iterator is destroyed on every path. */
#include "mtbl/sorter.c"
#include "spec/pump.spec.h"
struct { unsigned calls; struct mtbl_sorter *s; } vg_si;
struct mtbl_iter *mtbl_sorter_iter__cap(struct mtbl_sorter *s)
__CPROVER_requires(vg_si.calls == 0)
__CPROVER_assigns(__CPROVER_object_whole(&vg_si))
__CPROVER_ensures(vg_si.calls == 1 && vg_si.s == s && __CPROVER_return_value == vg_the_iter)
;
mtbl_res mtbl_sorter_write__spec(struct mtbl_sorter *s, struct mtbl_writer *w)
__CPROVER_requires(__CPROVER_is_fresh(s, sizeof(*s)))
__CPROVER_requires(vg_nx.nexts == 0 && vg_nx.yields == 0 && vg_ad.calls == 0 && vg_de.calls == 0 && vg_si.calls == 0 && vg_the_writer == w)
__CPROVER_assigns(__CPROVER_object_whole(&vg_nx), __CPROVER_object_whole(&vg_ad), __CPROVER_object_whole(&vg_de), __CPROVER_object_whole(&vg_si))
/* once iteration has begun a (further) write is refused and nothing happens */
__CPROVER_ensures(s->iterating ==> (__CPROVER_return_value == mtbl_res_failure && vg_si.calls == 0 && vg_nx.nexts == 0 && vg_ad.calls == 0))
__CPROVER_ensures(!s->iterating ==> (vg_si.calls == 1 && vg_si.s == s))
__CPROVER_ensures((!s->iterating && vg_the_iter == NULL) ==> (__CPROVER_return_value == mtbl_res_failure && vg_nx.nexts == 0 && vg_ad.calls == 0 && vg_de.calls == 0))
__CPROVER_ensures((!s->iterating && vg_the_iter != NULL) ==> (vg_ad.calls == vg_nx.yields && vg_de.calls == 1 && vg_de.it == vg_the_iter))
__CPROVER_ensures((!s->iterating && vg_the_iter != NULL && vg_ad.calls > 0 && vg_ad.last != mtbl_res_success) ==> __CPROVER_return_value == vg_ad.last)
__CPROVER_ensures((!s->iterating && vg_the_iter != NULL && (vg_ad.calls == 0 || vg_ad.last == mtbl_res_success)) ==> (__CPROVER_return_value == mtbl_res_success && vg_nx.nexts >= 1 && vg_nx.last != mtbl_res_success))
;
void h_sorter_write_dfcc(void) { struct mtbl_sorter *s; struct mtbl_writer *w; mtbl_res r = mtbl_sorter_write(s, w); VG_REACH("mtbl_sorter_write returns"); }
