/* Induction-step harnesses for the writer: ALL of /repo/mtbl/writer.c runs for real (mtbl_writer_add, _mtbl_writer_flush,
 * _mtbl_writer_compress_block, _mtbl_writer_write_data_block, _mtbl_writer_write_block, _write_all, _mtbl_writer_finish,
 * the pool wrappers), together with the real ubuf/vector code, bytes_compare, bytes_shortest_separator and
 * mtbl_varint_encode64.  Everything outside writer.c is an environment stub with a stated contract:
 * block builder (abstract: emptiness, size estimate, captured calls), checksum, compression, metadata_write, thread pool
 * (in-order, synchronous delivery = one legal schedule), and the file model.
 * Each harness starts from an ARBITRARY writer state satisfying the invariant W (hence every history of earlier calls)
 * and checks the postconditions and W again.  Bound: key length <= VG_KMAX (buffers are real). */
#include "mtbl/writer.c"
#include "spec/ghost.h"
#include "tu/writer_env.h"

/* ---------- arbitrary ubuf (vector invariant of libmy/vector.h) ---------- */
static ubuf *vg_any_ubuf(size_t max_n)
{
	ubuf *u = malloc(sizeof(*u));
	u->_n_alloced = 2 * VG_KMAX; u->_n = nondet_size(); u->_hint = 2 * VG_KMAX;
	__CPROVER_assume(u->_n <= u->_n_alloced && u->_n <= max_n);
	u->_v = malloc(u->_n_alloced);
	u->_p = u->_v + u->_n;
	return u;
}

static int vg_lexcmp(const uint8_t *a, size_t la, const uint8_t *b, size_t lb)
{
	for (size_t i = 0; i < VG_KMAX + 4; i++) {
		if (i >= la || i >= lb) break;
		if (a[i] != b[i]) return a[i] < b[i] ? -1 : 1;
	}
	return la < lb ? -1 : la > lb;
}

/* arbitrary writer satisfying W */
static struct block_builder vg_data_bb, vg_index_bb;
static struct mtbl_writer *vg_any_writer(_Bool pooled)
{
	struct mtbl_writer *w = malloc(sizeof(*w));
	w->fd = nondet_int(); vg_wfd = w->fd;
	w->m.file_version = MTBL_FORMAT_V2;
	w->m.index_block_offset = nondet_u64(); w->m.bytes_index_block = nondet_u64();
	w->m.data_block_size = nondet_u64(); w->m.compression_algorithm = nondet_u64();
	w->m.count_entries = nondet_u64(); w->m.count_data_blocks = nondet_u64();
	w->m.bytes_data_blocks = nondet_u64(); w->m.bytes_keys = nondet_u64(); w->m.bytes_values = nondet_u64();
	w->opt.compression_type = nondet_int(); w->opt.compression_level = nondet_int();
	w->opt.block_size = nondet_size(); w->opt.block_restart_interval = nondet_size();
	__CPROVER_assume(w->opt.compression_type >= MTBL_COMPRESSION_NONE && w->opt.compression_type <= MTBL_COMPRESSION_ZSTD);
	__CPROVER_assume(w->m.compression_algorithm == (uint64_t)w->opt.compression_type && w->m.data_block_size == w->opt.block_size);
	w->data = &vg_data_bb; w->index = &vg_index_bb;
	vg_data_bb.est = nondet_size(); vg_data_bb.empty = nondet_bool();
	vg_index_bb.est = nondet_size(); vg_index_bb.empty = nondet_bool();
	__CPROVER_assume(vg_data_bb.est <= ((size_t)1 << 31) && vg_index_bb.est <= ((size_t)1 << 31) && vg_data_bb.est >= 8 && vg_index_bb.est >= 8);   /* blocks below the 4 GiB (64-bit restart array) regime */
	w->last_key = vg_any_ubuf(VG_KMAX);
	w->closed = 0;
	w->pool = NULL; w->rhandler = NULL; w->opt.pool = NULL;
	if (pooled) { w->pool = (struct threadpool *)malloc(1); w->rhandler = result_handler_init(_write_data_block_wrapper, w); }
	/* ---- W: ghost truth ties ---- */
	vg_start = nondet_long(); vg_fpos = nondet_size();
	__CPROVER_assume(vg_start >= 0 && vg_start <= ((off_t)1 << 40) && vg_fpos <= ((size_t)1 << 40));
	w->pending_offset = (uint64_t)vg_start + vg_fpos;          /* W1: next byte goes to pending_offset */
	w->last_offset = nondet_u64(); __CPROVER_assume(w->last_offset <= w->pending_offset);
	__CPROVER_assume(w->m.bytes_data_blocks == vg_fpos);       /* W2: so far only data blocks were written */
	__CPROVER_assume(w->m.count_data_blocks <= ((uint64_t)1 << 40) && w->m.count_entries <= ((uint64_t)1 << 40));
	__CPROVER_assume(w->m.bytes_keys <= ((uint64_t)1 << 50) && w->m.bytes_values <= ((uint64_t)1 << 50));
	__CPROVER_assume((w->m.count_entries == 0) ==> (vg_data_bb.empty && w->m.count_data_blocks == 0));   /* W3 */
	__CPROVER_assume((w->m.count_data_blocks == 0) == (vg_fpos == 0));
	__CPROVER_assume((w->m.count_entries == 0) ==> (ubuf_size(w->last_key) == 0));                        /* W4 */
	vg_index_bb.adds = 0; vg_data_bb.adds = 0;
	return w;
}

/* ======================================================================= mtbl_writer_add, one step */
void h_writer_add_step(void)
{
	_Bool in_pooled = nondet_bool();
	struct mtbl_writer *w = vg_any_writer(in_pooled);
	uint8_t in_key[VG_KMAX]; size_t in_lk = nondet_size(), in_lv = nondet_size();
	__CPROVER_assume(in_lk <= VG_KMAX && in_lv <= ((size_t)1 << 31));
	for (int i = 0; i < VG_KMAX; i++) in_key[i] = nondet_u8();
	uint8_t *in_val = malloc(10);
	/* snapshot */
	struct mtbl_metadata m0 = w->m; uint64_t pend0 = w->pending_offset, lastoff0 = w->last_offset; size_t fpos0 = vg_fpos;
	uint8_t last0[2 * VG_KMAX]; size_t llast0 = ubuf_size(w->last_key);
	for (size_t i = 0; i < 2 * VG_KMAX; i++) last0[i] = i < llast0 ? ubuf_data(w->last_key)[i] : 0;
	size_t est0 = vg_data_bb.est; _Bool empty0 = vg_data_bb.empty;
	_Bool greater = vg_lexcmp(in_key, in_lk, last0, llast0) > 0;

	mtbl_res res = mtbl_writer_add(w, in_key, in_lk, in_val, in_lv);
	VG_REACH("mtbl_writer_add returns");

	_Bool want = (m0.count_entries == 0) || greater;
	VG_P("C08", (res == mtbl_res_success) == want, "add succeeds iff no entry was accepted yet or the key is strictly greater than the last accepted key");
	if (res != mtbl_res_success) {
		VG_REACH("refused add reachable");
		VG_P("C08,C10", w->m.count_entries == m0.count_entries && w->m.bytes_keys == m0.bytes_keys && w->m.bytes_values == m0.bytes_values
		     && w->m.count_data_blocks == m0.count_data_blocks && w->m.bytes_data_blocks == m0.bytes_data_blocks, "a refused add changes no statistic");
		VG_P("C08", vg_fpos == fpos0 && w->pending_offset == pend0 && w->last_offset == lastoff0, "a refused add writes nothing");
		VG_P("C08", vg_data_bb.adds == 0 && vg_index_bb.adds == 0 && vg_data_bb.finishes == 0 && vg_data_bb.resets == 0, "a refused add does not touch the block builders");
		VG_P("C08", ubuf_size(w->last_key) == llast0, "a refused add leaves the remembered key's length");
		size_t in_k = nondet_size();
		if (in_k < llast0) VG_P("C08", ubuf_data(w->last_key)[in_k] == last0[in_k], "a refused add leaves the remembered key's bytes");
		return;
	}
	VG_REACH("accepted add reachable");
	_Bool cut = (est0 + 15 + in_lk + in_lv >= w->opt.block_size);
	/* the remembered key is the new key */
	VG_P("C08", ubuf_size(w->last_key) == in_lk, "after an accepted add the remembered key has the new key's length");
	{ size_t in_k = nondet_size(); if (in_k < in_lk) VG_P("C08", ubuf_data(w->last_key)[in_k] == in_key[in_k], "after an accepted add the remembered key is the new key"); }
	VG_P("C10", w->m.count_entries == m0.count_entries + 1 && w->m.bytes_keys == m0.bytes_keys + in_lk && w->m.bytes_values == m0.bytes_values + in_lv,
	     "an accepted add counts one entry, its key bytes and its value bytes");
	VG_P("C08,C01", vg_data_bb.adds == 1 && vg_data_bb.key_ptr == in_key && vg_data_bb.len_key == in_lk && vg_data_bb.val_ptr == in_val && vg_data_bb.len_val == in_lv,
	     "the entry is handed to the data block builder exactly once, with the caller's key and value");
	_Bool closed = vg_data_bb.finishes > 0;
	VG_P("C09", !closed || cut, "a block is closed only when the next entry (allowing 15 bytes of entry header) would bring it to the block size");
	VG_P("C09", !closed || !empty0, "an empty block is never written");
	VG_P("C09", closed || empty0 || vg_data_bb.est <= w->opt.block_size, "no block holding more than one entry exceeds the configured block size");
	if (!closed) {
		VG_P("C09", vg_fpos == fpos0 && vg_index_bb.adds == 0, "nothing is written and no index entry is made while the block stays open");
		VG_P("C10", w->m.count_data_blocks == m0.count_data_blocks && w->m.bytes_data_blocks == m0.bytes_data_blocks && w->pending_offset == pend0, "block statistics unchanged when no block is written");
	} else {
		VG_REACH("block cut reachable");
		VG_P("C09", vg_data_bb.finishes == 1 && vg_data_bb.resets == 1 && vg_data_bb.order < vg_data_bb.add_order, "the full block is finished and the builder reset before the new entry is added");
		/* framing + accounting */
		size_t stored = (w->opt.compression_type == MTBL_COMPRESSION_NONE) ? est0 : vg_cmp_out_len;
		VG_P("C09,C12", vg_crc_calls == 1 && vg_crc_len == stored && vg_crc_buf == ((w->opt.compression_type == MTBL_COMPRESSION_NONE) ? vg_fin_buf : vg_cmp_out),
		     "the checksum is computed once, over exactly the stored (compressed) bytes of the block");
		if (w->opt.compression_type != MTBL_COMPRESSION_NONE) {
			VG_P("C09,C01", vg_cmp_calls == 1 && vg_cmp_type == w->opt.compression_type && vg_cmp_in == vg_fin_buf && vg_cmp_in_len == est0, "the finished block is compressed once with the configured algorithm");
			VG_P("C01", vg_cmp_with_level == (w->opt.compression_level != DEFAULT_COMPRESSION_LEVEL) && (!vg_cmp_with_level || vg_cmp_level_used == w->opt.compression_level), "the configured compression level is used, or the algorithm's default");
		} else VG_P("C09", vg_cmp_calls == 0, "no compression call for MTBL_COMPRESSION_NONE");
		unsigned n = 1; { uint64_t v = stored; while (v >= 128) { v >>= 7; n++; } }
		VG_P("C09,C20", vg_writes == 3 && vg_fpos == fpos0 + n + 4 + stored && vg_last_write_len == stored, "the block is written as varint(length) + 4 checksum bytes + stored bytes");
		VG_P("C10,C09", w->pending_offset == pend0 + n + 4 + stored && w->last_offset == pend0, "offsets advance by exactly the bytes the block occupies; the block starts at the previous pending offset");
		VG_P("C10", w->m.count_data_blocks == m0.count_data_blocks + 1 && w->m.bytes_data_blocks == m0.bytes_data_blocks + n + 4 + stored, "block statistics count the block and all bytes it occupies (prefix and checksum included)");
		/* index entry: separator key -> start offset */
		VG_P("C09,C01", vg_index_bb.adds == 1, "one index entry per data block");
		uint8_t enc[10]; size_t le = mtbl_varint_encode64(enc, pend0);
		VG_P("C09", vg_index_bb.len_val == le, "index value is the varint of the block's start offset (length)");
		{ size_t in_k = nondet_size(); if (in_k < le) VG_P("C09,C01", vg_index_bb.val[in_k] == enc[in_k], "index value is the varint of the block's start offset (bytes)"); }
		VG_P("C09,C02", vg_index_bb.len_key <= VG_KMAX + 4 && vg_lexcmp(last0, llast0, vg_index_bb.key, vg_index_bb.len_key) <= 0, "index key >= last key of the block");
		VG_P("C09,C02", vg_lexcmp(vg_index_bb.key, vg_index_bb.len_key, in_key, in_lk) < 0, "index key < first key of the next block");
	}
	/* W again */
	VG_P("C10,C09", w->pending_offset == (uint64_t)vg_start + vg_fpos && w->m.bytes_data_blocks == vg_fpos, "writer invariant: pending offset and bytes_data_blocks equal the file model");
	VG_P("C10", !vg_data_bb.empty && !w->closed, "writer invariant: the data builder holds the pending entries");
}

/* ======================================================================= close: _mtbl_writer_finish via mtbl_writer_destroy */
void h_writer_close_step(void)
{
	_Bool in_pooled = nondet_bool();
	struct mtbl_writer *w = vg_any_writer(in_pooled);
	struct mtbl_metadata m0 = w->m; uint64_t pend0 = w->pending_offset; size_t fpos0 = vg_fpos;
	size_t est0 = vg_data_bb.est, iest0 = vg_index_bb.est; _Bool empty0 = vg_data_bb.empty;
	__CPROVER_assume(w->opt.compression_type == MTBL_COMPRESSION_NONE);    /* compression path is covered by the add step */
	mtbl_writer_destroy(&w);
	VG_REACH("mtbl_writer_destroy returns");
	unsigned nb = 1; { uint64_t v = est0; while (v >= 128) { v >>= 7; nb++; } }
	size_t blk = empty0 ? 0 : nb + 4 + est0;
	size_t iest = iest0; if (!empty0) iest = vg_index_bb.est;    /* after the last block's index entry */
	unsigned ni = 1; { uint64_t v = vg_fin_len; while (v >= 128) { v >>= 7; ni++; } }
	VG_P("C09,C20", vg_writes == (empty0 ? 4u : 7u), "close writes the pending block (if any), the index block and the trailer, nothing else");
	VG_P("C09", vg_fin_who == &vg_index_bb && vg_last_write_len == MTBL_METADATA_SIZE, "the index block is finished last and the trailer is the last 512 bytes written");
	VG_P("C09,C12", vg_crc_buf == vg_fin_buf && vg_crc_len == vg_fin_len, "the index block carries the checksum of exactly its bytes");
	VG_P("C10,C09", vg_fpos == fpos0 + blk + ni + 4 + vg_fin_len + MTBL_METADATA_SIZE, "file = data blocks, index block (varint length + checksum + bytes), trailer");
	VG_P("C10", vg_md_calls == 1, "the trailer is serialised once from the writer's statistics");
	VG_P("C10,C09,C01", vg_md.index_block_offset == (uint64_t)vg_start + fpos0 + blk, "trailer index_block_offset is the file offset where the index block starts (start offset included)");
	VG_P("C10", vg_md.bytes_index_block == ni + 4 + vg_fin_len, "trailer bytes_index_block is the bytes the index block occupies");
	VG_P("C10", vg_md.bytes_data_blocks == fpos0 + blk && vg_md.count_data_blocks == m0.count_data_blocks + (empty0 ? 0 : 1), "trailer data block statistics include the last block");
	VG_P("C10", vg_md.count_entries == m0.count_entries && vg_md.bytes_keys == m0.bytes_keys && vg_md.bytes_values == m0.bytes_values, "trailer entry statistics are the writer's counters");
	VG_P("C10", vg_md.data_block_size == m0.data_block_size && vg_md.compression_algorithm == m0.compression_algorithm && vg_md.file_version == MTBL_FORMAT_V2, "trailer records block size, algorithm, format version");
	VG_P("C18", vg_closed_fds == 1 && vg_bb_destroyed == 2, "destroy closes the descriptor once and destroys both builders");
	VG_P("C18,C13", !in_pooled || vg_rh_destroyed == 1, "a pooled writer joins its result handler before writing the index");
}

#ifdef VG_WRITE_FAULTS
/* ======================================================================= C20: faults during add (block cut) and close */
void h_writer_close_fault(void)
{
	_Bool in_pooled = nondet_bool();
	struct mtbl_writer *w = vg_any_writer(in_pooled);
	uint64_t pend0 = w->pending_offset; size_t fpos0 = vg_fpos;
	size_t est0 = vg_data_bb.est, iest0 = vg_index_bb.est; _Bool empty0 = vg_data_bb.empty;
	__CPROVER_assume(w->opt.compression_type == MTBL_COMPRESSION_NONE);
	__CPROVER_assume(vg_data_bb.empty);      /* no pending data block: the writes of a data block under faults are the add harness's (wr_add_fault); here: index block + trailer */
	vg_errno = nondet_int();
	mtbl_writer_destroy(&w);
	VG_REACH("mtbl_writer_destroy returns (fault mode)");
	unsigned nb = 1; { uint64_t v = est0; while (v >= 128) { v >>= 7; nb++; } }
	size_t blk = empty0 ? 0 : nb + 4 + est0;
	unsigned ni = 1; { uint64_t v = vg_fin_len; while (v >= 128) { v >>= 7; ni++; } }
	VG_P("C20", !vg_hard, "close never returns normally after a hard write error (the process stops loudly instead)");
	VG_P("C20,C09", vg_fpos == fpos0 + blk + ni + 4 + vg_fin_len + MTBL_METADATA_SIZE, "under any fragmentation exactly the bytes of data block, index block and trailer reach the file");
	VG_P("C20,C10", vg_md.index_block_offset == (uint64_t)vg_start + fpos0 + blk && vg_md.bytes_index_block == ni + 4 + vg_fin_len && vg_md.bytes_data_blocks == fpos0 + blk,
	     "the trailer's offsets and sizes do not depend on how write(2) fragments the output");
}
void h_writer_add_fault(void)
{
	_Bool in_pooled = nondet_bool();
	struct mtbl_writer *w = vg_any_writer(in_pooled);
	uint8_t in_key[VG_KMAX]; size_t in_lk = nondet_size(), in_lv = nondet_size();
	__CPROVER_assume(in_lk <= VG_KMAX && in_lv <= ((size_t)1 << 31));
	for (int i = 0; i < VG_KMAX; i++) in_key[i] = nondet_u8();
	uint8_t *in_val = malloc(10);
	uint64_t pend0 = w->pending_offset; size_t fpos0 = vg_fpos; size_t est0 = vg_data_bb.est; uint64_t bdb0 = w->m.bytes_data_blocks;
	__CPROVER_assume(w->opt.compression_type == MTBL_COMPRESSION_NONE);
	vg_errno = nondet_int();
	mtbl_res res = mtbl_writer_add(w, in_key, in_lk, in_val, in_lv);
	VG_REACH("mtbl_writer_add returns (fault mode)");
	VG_P("C20", !vg_hard, "add never returns normally after a hard write error (the process stops loudly instead)");
	if (res == mtbl_res_success && vg_data_bb.finishes > 0) {
		VG_REACH("block cut under faults reachable");
		unsigned n = 1; { uint64_t v = est0; while (v >= 128) { v >>= 7; n++; } }
		VG_P("C20,C09", vg_fpos == fpos0 + n + 4 + est0, "under any fragmentation exactly varint(length) + checksum + stored bytes reach the file");
		VG_P("C20,C10", w->pending_offset == pend0 + n + 4 + est0 && w->m.bytes_data_blocks == bdb0 + n + 4 + est0, "offsets and statistics advance by the bytes the block occupies, not by what single write(2) calls returned");
		uint8_t enc[10]; size_t le = mtbl_varint_encode64(enc, pend0);
		VG_P("C20,C09", vg_index_bb.adds == 1 && vg_index_bb.len_val == le, "the index entry carries the block's true start offset under any fragmentation");
	}
}
#endif
