/* C05 / C04 / C18: merger_get, merger_get_prefix, merger_get_range and merger_iter (mtbl/merger.c, real) under DFCC with loop
 * contracts, for ANY number of sources.  Sequencing obligations are stated as call-site requirements of the capture contracts
 * (they are property-grade "requires" checks at every call in the real body):
 *   - source number i is asked exactly once, i-th, with exactly the caller's bounds and the lookup kind of the outer call
 *     (merger_get asks for the range [key, key]);
 *   - every iterator a source hands back is first registered in the merger iterator's ownership list and then offered to
 *     merger_iter_add_entry, before the next source is asked (so it is destroyed with the merger iterator, also when it turns
 *     out to be empty);
 *   - a bounded lookup that found no entry frees everything and returns NULL; otherwise the merged iterator is returned. */
#include "mtbl/merger.c"
#include "spec/ghost.h"

/* what the outer call was given */
unsigned vg_kind;                               /* 0 iter, 1 get, 2 get_prefix, 3 get_range */
const uint8_t *vg_q0, *vg_q1; size_t vg_ql0, vg_ql1;
struct mtbl_merger *vg_m;
/* progress */
struct { unsigned long asked; struct mtbl_iter *last; unsigned registered, offered; } vg_pr;
struct { unsigned inits, frees, iinits; struct mtbl_iter *ret; void *clos; } vg_lc;
static struct merger_iter vg_mit; static entry_vec vg_entries; static iter_vec vg_iters;

struct merger_iter *merger_iter_init__cap(struct mtbl_merger *m)
__CPROVER_requires(vg_lc.inits == 0 && m == vg_m)
__CPROVER_assigns(__CPROVER_object_whole(&vg_lc), __CPROVER_object_whole(&vg_mit), __CPROVER_object_whole(&vg_entries), __CPROVER_object_whole(&vg_iters))
__CPROVER_ensures(vg_lc.inits == 1 && vg_lc.frees == 0 && vg_lc.iinits == 0 && __CPROVER_return_value == &vg_mit && vg_mit.entries == &vg_entries && vg_mit.iters == &vg_iters && vg_mit.m == m && vg_entries._n == 0 && vg_iters._n == 0)
;
#define VG_ASK_REQ(src) (vg_lc.inits == 1 && vg_lc.frees == 0 && vg_lc.iinits == 0 && (src) == vg_m->sources->_v[vg_pr.asked] && vg_pr.asked < vg_m->sources->_n \
                         && (vg_pr.last == NULL || (vg_pr.registered == 1 && vg_pr.offered == 1)))
#define VG_ASK_ENS (vg_pr.asked == __CPROVER_old(vg_pr.asked) + 1 && __CPROVER_return_value == vg_pr.last && vg_pr.registered == 0 && vg_pr.offered == 0)
struct mtbl_iter *mtbl_source_iter__cap(const struct mtbl_source *s)
__CPROVER_requires(vg_kind == 0 && VG_ASK_REQ(s))
__CPROVER_assigns(__CPROVER_object_whole(&vg_pr))
__CPROVER_ensures(VG_ASK_ENS)
;
struct mtbl_iter *mtbl_source_get_prefix__cap(const struct mtbl_source *s, const uint8_t *k, size_t l)
__CPROVER_requires(vg_kind == 2 && VG_ASK_REQ(s) && k == vg_q0 && l == vg_ql0)
__CPROVER_assigns(__CPROVER_object_whole(&vg_pr))
__CPROVER_ensures(VG_ASK_ENS)
;
struct mtbl_iter *mtbl_source_get_range__cap(const struct mtbl_source *s, const uint8_t *k0, size_t l0, const uint8_t *k1, size_t l1)
__CPROVER_requires((vg_kind == 3 || vg_kind == 1) && VG_ASK_REQ(s) && k0 == vg_q0 && l0 == vg_ql0 && k1 == vg_q1 && l1 == vg_ql1)
__CPROVER_assigns(__CPROVER_object_whole(&vg_pr))
__CPROVER_ensures(VG_ASK_ENS)
;
void iter_vec_add__cap(iter_vec *v, struct mtbl_iter *e)
/* the iterator just obtained is registered for destruction: once, before it is offered (merger_iter registers NULL results too) */
__CPROVER_requires(v == &vg_iters && e == vg_pr.last && vg_pr.registered == 0 && vg_pr.offered == 0 && vg_lc.frees == 0)
__CPROVER_assigns(vg_pr.registered, v->_n)
__CPROVER_ensures(vg_pr.registered == 1 && v->_n == __CPROVER_old(v->_n) + 1)
;
void merger_iter_add_entry__cap(struct merger_iter *it, struct mtbl_iter *e)
__CPROVER_requires(it == &vg_mit && e == vg_pr.last && vg_pr.registered == 1 && vg_pr.offered == 0)
__CPROVER_assigns(vg_pr.offered, vg_entries._n)
/* the iterator yields a first entry (then one heap entry is made) or it does not */
__CPROVER_ensures(vg_pr.offered == 1 && (vg_entries._n == __CPROVER_old(vg_entries._n) || vg_entries._n == __CPROVER_old(vg_entries._n) + 1) && vg_entries._n <= vg_pr.asked)
;
void merger_iter_free__cap(void *v)
__CPROVER_requires(v == (void *)&vg_mit && vg_lc.frees == 0 && vg_lc.iinits == 0 && (vg_pr.last == NULL || (vg_pr.registered == 1 && vg_pr.offered == 1)))
__CPROVER_assigns(vg_lc.frees)
__CPROVER_ensures(vg_lc.frees == 1)
;
struct mtbl_iter *mtbl_iter_init__cap(mtbl_iter_seek_func a, mtbl_iter_next_func b, mtbl_iter_free_func c, void *clos)
__CPROVER_requires(vg_lc.iinits == 0 && vg_lc.frees == 0 && clos == (void *)&vg_mit && c == merger_iter_free && (vg_pr.last == NULL || (vg_pr.registered == 1 && vg_pr.offered == 1)))
__CPROVER_assigns(vg_lc.iinits, vg_lc.ret, vg_lc.clos)
__CPROVER_ensures(vg_lc.iinits == 1 && __CPROVER_return_value == vg_lc.ret && vg_lc.ret != NULL && vg_lc.clos == clos)
;
#define VG_LOOKUP_REQ \
__CPROVER_requires(__CPROVER_is_fresh(clos, sizeof(struct mtbl_merger)) && vg_m == (struct mtbl_merger *)clos && __CPROVER_is_fresh(vg_m->sources, sizeof(source_vec)) && vg_m->sources->_n <= ((size_t)1 << 28) \
                   && __CPROVER_is_fresh(vg_m->sources->_v, vg_m->sources->_n * sizeof(void *) + 8)) \
__CPROVER_requires(vg_pr.asked == 0 && vg_pr.last == NULL && vg_pr.registered == 0 && vg_pr.offered == 0 && vg_lc.inits == 0 && vg_lc.frees == 0 && vg_lc.iinits == 0) \
__CPROVER_assigns(__CPROVER_object_whole(&vg_pr), __CPROVER_object_whole(&vg_lc), __CPROVER_object_whole(&vg_mit), __CPROVER_object_whole(&vg_entries), __CPROVER_object_whole(&vg_iters)) \
/* every source was asked (the call-site requirements fix which one, when, and with what) */ \
__CPROVER_ensures(vg_lc.inits == 1 && vg_pr.asked == vg_m->sources->_n)
#define VG_BOUNDED_ENS \
__CPROVER_ensures(vg_entries._n == 0 ==> (__CPROVER_return_value == NULL && vg_lc.frees == 1 && vg_lc.iinits == 0)) \
__CPROVER_ensures(vg_entries._n != 0 ==> (__CPROVER_return_value == vg_lc.ret && vg_lc.frees == 0 && vg_lc.iinits == 1))

struct mtbl_iter *merger_iter__spec(void *clos)
__CPROVER_requires(vg_kind == 0)
VG_LOOKUP_REQ
__CPROVER_ensures(__CPROVER_return_value == vg_lc.ret && vg_lc.frees == 0 && vg_lc.iinits == 1)
;
struct mtbl_iter *merger_get__spec(void *clos, const uint8_t *key, size_t len_key)
__CPROVER_requires(vg_kind == 1 && vg_q0 == key && vg_ql0 == len_key && vg_q1 == key && vg_ql1 == len_key)
VG_LOOKUP_REQ
VG_BOUNDED_ENS
;
struct mtbl_iter *merger_get_prefix__spec(void *clos, const uint8_t *key, size_t len_key)
__CPROVER_requires(vg_kind == 2 && vg_q0 == key && vg_ql0 == len_key)
VG_LOOKUP_REQ
VG_BOUNDED_ENS
;
struct mtbl_iter *merger_get_range__spec(void *clos, const uint8_t *key0, size_t len_key0, const uint8_t *key1, size_t len_key1)
__CPROVER_requires(vg_kind == 3 && vg_q0 == key0 && vg_ql0 == len_key0 && vg_q1 == key1 && vg_ql1 == len_key1)
VG_LOOKUP_REQ
VG_BOUNDED_ENS
;
void h_merger_iter_dfcc(void) { void *c; struct mtbl_iter *r = merger_iter(c); VG_REACH("merger_iter returns"); }
void h_merger_get_dfcc(void) { void *c; const uint8_t *k; size_t l; struct mtbl_iter *r = merger_get(c, k, l); VG_REACH("merger_get returns"); }
void h_merger_get_prefix_dfcc(void) { void *c; const uint8_t *k; size_t l; struct mtbl_iter *r = merger_get_prefix(c, k, l); VG_REACH("merger_get_prefix returns"); }
void h_merger_get_range_dfcc(void) { void *c; const uint8_t *k, *k1; size_t l, l1; struct mtbl_iter *r = merger_get_range(c, k, l, k1, l1); VG_REACH("merger_get_range returns"); }
