/* Environment of mtbl/writer.c shared by the writer harnesses (step harnesses from arbitrary states, session harness
 * from mtbl_writer_init_fd): file model, abstract block builder, checksum / compression / metadata capture, thread pool model. */
/* Vector growth is excluded from this capped harness (the buffers are created large enough): realloc is a cut point.
 * If a run reaches it the auxiliary obligation below fails (=> undecided, never silent).  Growth itself: group vec_grow. */
void *realloc(void *p, size_t n) { VG_A(0, "no vector growth expected in this capped harness"); __CPROVER_assume(0); return p; }

#ifndef VG_KMAX
#define VG_KMAX 4
#endif

/* ---------- file model: byte counting + capture of the trailer write ---------- */
static size_t vg_fpos;            /* bytes handed to the descriptor so far */
static off_t vg_start;
static int vg_wfd;
static unsigned vg_writes;
static size_t vg_last_write_len;
int vg_errno;
int *__errno_location(void) { return &vg_errno; }
#ifdef VG_WRITE_FAULTS
/* fault mode (groups wr_*_fault): up to VG_WRITE_FAULTS events over the whole operation, each one an EINTR, a short write
 * (one byte accepted), or a hard error (-1 with any errno other than EINTR) */
static unsigned vg_faults_left = VG_WRITE_FAULTS; static _Bool vg_hard;
#endif
ssize_t write(int fd, const void *buf, size_t count)
{
	VG_P("C09,C20", fd == vg_wfd, "every write goes to the writer's own descriptor");
#ifdef VG_WRITE_FAULTS
	if (vg_faults_left > 0 && nondet_bool()) {
		vg_faults_left--;
		unsigned kind = nondet_u8();
		if (kind == 0) { vg_errno = EINTR; return -1; }
		if (kind == 1) { vg_errno = nondet_int(); __CPROVER_assume(vg_errno != EINTR && vg_errno != 0); vg_hard = 1; return -1; }
		size_t n = 1;      /* short write: one byte accepted (any count below the request exposes a dependence on write()'s return value; arbitrary counts: groups c20_write_all / c20_write_block_frag) */
		vg_writes++; vg_fpos += n; return (ssize_t)n;
	}
#endif
	vg_writes++; vg_last_write_len = count; vg_fpos += count;
	return (ssize_t)count;
}
static int vg_closed_fds;
int close(int fd) { VG_P("C18", fd == vg_wfd, "only the writer's own descriptor is closed"); vg_closed_fds++; return 0; }

/* ---------- abstract block builder (contract of mtbl/block_builder.c, see groups bb_*) ---------- */
struct block_builder {
	size_t est;          /* current size estimate */
	_Bool empty;
	unsigned adds, finishes, resets, order;
	/* last add */
	uint8_t key[VG_KMAX + 4]; size_t len_key; const uint8_t *key_ptr;
	uint8_t val[12]; size_t len_val; const uint8_t *val_ptr;
	unsigned add_order;
};
static unsigned vg_order;         /* global sequence number of interesting calls */
size_t block_builder_current_size_estimate(struct block_builder *b) { return b->est; }
bool block_builder_empty(struct block_builder *b) { return b->empty; }
void block_builder_add(struct block_builder *b, const uint8_t *key, size_t len_key, const uint8_t *val, size_t len_val)
{
	b->adds++; b->add_order = ++vg_order;
	b->len_key = len_key; b->len_val = len_val; b->key_ptr = key; b->val_ptr = val;
	for (size_t i = 0; i < VG_KMAX + 4; i++) if (i < len_key) b->key[i] = key[i];
	if (len_val <= 10) for (size_t i = 0; i < 10; i++) if (i < len_val) b->val[i] = val[i];   /* index values: varint64 */
	b->empty = 0;
	/* builder contract (proved on the real block_builder_add, groups bb_*): the estimate grows by the entry header
	 * (three varints: shared, non_shared, value length), the non-shared key bytes, the value bytes, and 4 bytes when
	 * the entry opens a new restart run (then shared == 0). */
	size_t e = nondet_size();
	unsigned vk = 1, vv = 1; { uint64_t t = len_key; while (t >= 128) { t >>= 7; vk++; } t = len_val; while (t >= 128) { t >>= 7; vv++; } }
	size_t hdr_restart = 1 + vk + vv + 4, hdr_shared = 2 * vk + vv;
	size_t hdr = hdr_restart > hdr_shared ? hdr_restart : hdr_shared;
	__CPROVER_assume(e >= b->est && e - b->est <= hdr + len_key + len_val);
	b->est = e;
}
static uint8_t *vg_fin_buf; static size_t vg_fin_len; static struct block_builder *vg_fin_who;
void block_builder_finish(struct block_builder *b, uint8_t **buf, size_t *bufsz)
{
	b->finishes++; b->order = ++vg_order;
	*bufsz = b->est;              /* builder contract: finished size == current estimate */
	*buf = malloc(1);             /* content is never inspected by writer.c itself; only handed on */
	vg_fin_buf = *buf; vg_fin_len = *bufsz; vg_fin_who = b;
}
void block_builder_reset(struct block_builder *b) { b->resets++; b->empty = 1; b->est = 8; }
static unsigned vg_bb_destroyed;
void block_builder_destroy(struct block_builder **b) { if (*b) { vg_bb_destroyed++; *b = NULL; } }

/* ---------- checksum / compression / metadata: captured calls ---------- */
static const uint8_t *vg_crc_buf; static size_t vg_crc_len; static uint32_t vg_crc_ret; static unsigned vg_crc_calls, vg_crc_order;
uint32_t mtbl_crc32c(const uint8_t *buf, size_t size)
{ vg_crc_calls++; vg_crc_order = ++vg_order; vg_crc_buf = buf; vg_crc_len = size; vg_crc_ret = nondet_u32(); return vg_crc_ret; }
static unsigned vg_cmp_calls; static int vg_cmp_level_used; static _Bool vg_cmp_with_level; static mtbl_compression_type vg_cmp_type;
static const uint8_t *vg_cmp_in; static size_t vg_cmp_in_len; static uint8_t *vg_cmp_out; static size_t vg_cmp_out_len;
static mtbl_res vg_compress(mtbl_compression_type t, const uint8_t *in, size_t n, uint8_t **out, size_t *outn)
{
	vg_cmp_calls++; vg_cmp_type = t; vg_cmp_in = in; vg_cmp_in_len = n;
	if (nondet_bool()) return mtbl_res_failure;
	vg_cmp_out = malloc(1); vg_cmp_out_len = nondet_size();
	__CPROVER_assume(vg_cmp_out_len >= 1 && vg_cmp_out_len <= ((size_t)1 << 40));
	*out = vg_cmp_out; *outn = vg_cmp_out_len;
	return mtbl_res_success;
}
mtbl_res mtbl_compress(mtbl_compression_type t, const uint8_t *in, const size_t n, uint8_t **out, size_t *outn)
{ vg_cmp_with_level = 0; return vg_compress(t, in, n, out, outn); }
mtbl_res mtbl_compress_level(mtbl_compression_type t, int l, const uint8_t *in, const size_t n, uint8_t **out, size_t *outn)
{ vg_cmp_with_level = 1; vg_cmp_level_used = l; return vg_compress(t, in, n, out, outn); }
static struct mtbl_metadata vg_md; static unsigned vg_md_calls; static uint8_t *vg_md_buf;
void metadata_write(const struct mtbl_metadata *m, uint8_t *buf) { vg_md = *m; vg_md_calls++; vg_md_buf = buf; }

/* ---------- thread pool: assumed contract = each job runs exactly once and its result is delivered exactly once,
 * in submission order for ordered handlers; modelled by the synchronous schedule ---------- */
struct result_handler { result_cb cb; void *cbdata; unsigned delivered; };
static struct result_handler vg_rh; static unsigned vg_rh_destroyed, vg_dispatches;
struct result_handler *result_handler_init(result_cb cb, void *cbdata) { vg_rh.cb = cb; vg_rh.cbdata = cbdata; return &vg_rh; }
void result_handler_destroy(struct result_handler **rhp) { if (*rhp) { vg_rh_destroyed++; *rhp = NULL; } }
void threadpool_dispatch(struct threadpool *pool, struct result_handler *rh, bool ordered, thread_cb cb, void *arg)
{
	VG_P("C10,C09", ordered, "data blocks are dispatched with ordered delivery (file order = submission order)");
	vg_dispatches++;
	void *res = cb(arg);
	rh->cb(res, rh->cbdata);
	rh->delivered++;
}

