/* C07: ALL of /repo/mtbl/fileset.c runs for real (reload, reload_now, fs_reinit_merger, the four source operations,
 * fileset_iter_init/free, dup, destroy).  libmy/my_fileset.c, the merger, the readers and the clock are environment
 * stubs with stated contracts; the reader set carries a ghost generation number.  Handles start in ARBITRARY states
 * satisfying the handle invariant H (every history of reloads through any handle, iterators open or not). */
#include "mtbl/fileset.c"
#include "spec/ghost.h"

#define NR 3
/* ---------- reader set (my_fileset) with generation ghost ---------- */
static unsigned vg_gen;                   /* generation of the shared reader set */
static unsigned vg_reload_calls;
static unsigned vg_nreaders; static _Bool vg_rnull[NR], vg_fname_ok[NR], vg_reader_ok[NR];
struct mtbl_reader { unsigned idx; unsigned gen; };
static struct mtbl_reader vg_readers[NR];
struct my_fileset { void *user; };
static struct my_fileset vg_myfs;
void *my_fileset_user(struct my_fileset *fs) { return fs->user; }
void my_fileset_reload(struct my_fileset *fs)
{
	struct shared_fileset *sh = fs->user;
	vg_reload_calls++;
	VG_P("C07", sh->n_iters == 0, "the setfile is never reloaded while any iterator on the shared fileset is open");
	if (nondet_bool()) {                  /* the setfile changed: readers loaded and/or unloaded through the callbacks */
		size_t l = nondet_size(), u = nondet_size(); __CPROVER_assume(l <= 3 && u <= 3 && l + u > 0);
		sh->n_loaded += l; sh->n_unloaded += u;
		vg_gen++;
		vg_nreaders = nondet_u32(); __CPROVER_assume(vg_nreaders <= NR);
		for (unsigned i = 0; i < NR; i++) { vg_readers[i].gen = vg_gen; vg_rnull[i] = nondet_bool(); vg_fname_ok[i] = nondet_bool(); vg_reader_ok[i] = nondet_bool(); }
	}
}
bool my_fileset_get(struct my_fileset *fs, size_t i, const char **fname, void **ptr)
{
	if (i >= vg_nreaders) return false;
	static const char *names[NR] = { "f0", "f1", "f2" };
	*fname = names[i]; *ptr = vg_rnull[i] ? NULL : &vg_readers[i];
	return true;
}
struct my_fileset *my_fileset_init(const char *fn, my_fileset_load_func l, my_fileset_unload_func u, void *user) { vg_myfs.user = user; return &vg_myfs; }
static unsigned vg_myfs_destroyed;
void my_fileset_destroy(struct my_fileset **fs) { if (*fs) { vg_myfs_destroyed++; *fs = NULL; } }
struct mtbl_reader *mtbl_reader_init(const char *fname, const struct mtbl_reader_options *o) { return NULL; }
void mtbl_reader_destroy(struct mtbl_reader **r) { *r = NULL; }
struct mtbl_source { struct mtbl_reader *r; };
static struct mtbl_source vg_rsrc[NR];
const struct mtbl_source *mtbl_reader_source(struct mtbl_reader *r) { VG_P("C07", r != NULL, "only opened tables are asked for their source"); vg_rsrc[r->idx].r = r; return &vg_rsrc[r->idx]; }

/* ---------- merger: records which readers it was built from ---------- */
struct mtbl_merger { unsigned gen; unsigned nsrc; _Bool has[NR]; _Bool dup; _Bool alive; struct mtbl_source src; };
static int vg_mergers_live;
struct mtbl_merger_options { int d; };
struct mtbl_merger_options *mtbl_merger_options_init(void) { return malloc(sizeof(struct mtbl_merger_options)); }
void mtbl_merger_options_destroy(struct mtbl_merger_options **o) { if (*o) { free(*o); *o = NULL; } }
void mtbl_merger_options_set_merge_func(struct mtbl_merger_options *o, mtbl_merge_func m, void *c) { }
void mtbl_merger_options_set_dupsort_func(struct mtbl_merger_options *o, mtbl_dupsort_func m, void *c) { }
struct mtbl_merger *mtbl_merger_init(const struct mtbl_merger_options *o)
{ struct mtbl_merger *m = malloc(sizeof(*m)); m->gen = vg_gen; m->nsrc = 0; m->dup = 0; m->alive = 1; for (int i = 0; i < NR; i++) m->has[i] = 0; vg_mergers_live++; return m; }
void mtbl_merger_destroy(struct mtbl_merger **m) { if (*m) { (*m)->alive = 0; vg_mergers_live--; *m = NULL; } }
void mtbl_merger_add_source(struct mtbl_merger *m, const struct mtbl_source *s)
{
	VG_P("C07", s->r->gen == vg_gen, "a merger is only built from readers of the current reader set");
	if (m->has[s->r->idx]) m->dup = 1;
	m->has[s->r->idx] = 1; m->nsrc++;
}
static struct mtbl_merger *vg_used_merger;
const struct mtbl_source *mtbl_merger_source(struct mtbl_merger *m) { vg_used_merger = m; return &m->src; }
/* iterators */
struct mtbl_iter { int d; };
static int vg_inner_live; static unsigned vg_inner_made;
static struct mtbl_iter *vg_mk_inner(void) { vg_inner_live++; vg_inner_made++; return malloc(sizeof(struct mtbl_iter)); }
struct mtbl_iter *mtbl_source_iter(const struct mtbl_source *s) { return vg_mk_inner(); }
struct mtbl_iter *mtbl_source_get(const struct mtbl_source *s, const uint8_t *k, size_t l) { return vg_mk_inner(); }
struct mtbl_iter *mtbl_source_get_prefix(const struct mtbl_source *s, const uint8_t *k, size_t l) { return vg_mk_inner(); }
struct mtbl_iter *mtbl_source_get_range(const struct mtbl_source *s, const uint8_t *k0, size_t l0, const uint8_t *k1, size_t l1) { return vg_mk_inner(); }
static void *vg_outer_clos; static mtbl_iter_free_func vg_outer_free;
struct mtbl_iter *mtbl_iter_init(mtbl_iter_seek_func s, mtbl_iter_next_func n, mtbl_iter_free_func f, void *clos) { vg_outer_clos = clos; vg_outer_free = f; return malloc(sizeof(struct mtbl_iter)); }
void mtbl_iter_destroy(struct mtbl_iter **it) { if (*it) { vg_inner_live--; free(*it); *it = NULL; } }
mtbl_res mtbl_iter_seek(struct mtbl_iter *it, const uint8_t *k, size_t l) { return mtbl_res_success; }
mtbl_res mtbl_iter_next(struct mtbl_iter *it, const uint8_t **k, size_t *lk, const uint8_t **v, size_t *lv) { return mtbl_res_failure; }
struct mtbl_source *mtbl_source_init(mtbl_source_iter_func a, mtbl_source_get_func b, mtbl_source_get_prefix_func c, mtbl_source_get_range_func d, mtbl_source_free_func e, void *clos) { return malloc(sizeof(struct mtbl_source)); }
void mtbl_source_destroy(struct mtbl_source **s) { if (*s) { free(*s); *s = NULL; } }

/* ---------- monotonic clock: strictly increasing ---------- */
static struct timespec vg_now;
int clock_gettime(clockid_t c, struct timespec *ts)
{
	long ds = nondet_long(), dn = nondet_long(); __CPROVER_assume(ds >= 0 && ds <= 1000000 && dn >= 0 && dn < 1000000000 && (ds > 0 || dn > 0));
	vg_now.tv_sec += ds; vg_now.tv_nsec += dn; if (vg_now.tv_nsec >= 1000000000) { vg_now.tv_nsec -= 1000000000; vg_now.tv_sec++; }
	*ts = vg_now; return 0;
}

/* ---------- filters ---------- */
static bool vg_fname_filter(const char *fname, void *clos) { return vg_fname_ok[fname[1] - '0']; }
static bool vg_reader_filter(struct mtbl_reader *r, void *clos) { return vg_reader_ok[r->idx]; }

/* ---------- arbitrary shared state + handle satisfying H ---------- */
static struct shared_fileset vg_sh;
static struct mtbl_fileset *vg_any_handle(void)
{
	struct mtbl_fileset *f = malloc(sizeof(*f));
	f->shared_fs = &vg_sh;
	f->reload_interval = nondet_u32();
	f->fs_last.tv_sec = nondet_long(); f->fs_last.tv_nsec = nondet_long();
	__CPROVER_assume(f->fs_last.tv_sec >= 0 && f->fs_last.tv_sec <= vg_sh.fs_last.tv_sec && f->fs_last.tv_nsec >= 0 && f->fs_last.tv_nsec < 1000000000);
	f->mopt = mtbl_merger_options_init();
	f->merger = mtbl_merger_init(f->mopt);
	f->merger->gen = nondet_u32(); __CPROVER_assume(f->merger->gen <= vg_gen);
	f->source = NULL;
	f->fname_filter = nondet_bool() ? vg_fname_filter : NULL; f->fname_filter_clos = NULL;
	f->reader_filter = nondet_bool() ? vg_reader_filter : NULL; f->reader_filter_clos = NULL;
	_Bool current = (f->fs_last.tv_sec == vg_sh.fs_last.tv_sec && f->fs_last.tv_nsec == vg_sh.fs_last.tv_nsec);
	/* H: a handle whose timestamp equals the shared one has a merger built from the current reader set */
	if (current) {
		__CPROVER_assume(f->merger->gen == vg_gen);
		for (unsigned i = 0; i < NR; i++) f->merger->has[i] = (i < vg_nreaders) && !vg_rnull[i] && (!f->fname_filter || vg_fname_ok[i]) && (!f->reader_filter || vg_reader_ok[i]);
	}
	return f;
}
static void vg_any_shared(void)
{
	vg_gen = nondet_u32(); __CPROVER_assume(vg_gen >= 1 && vg_gen < 1000);
	vg_sh.n_loaded = nondet_size(); vg_sh.n_unloaded = nondet_size(); __CPROVER_assume(vg_sh.n_loaded < 1000 && vg_sh.n_unloaded < 1000);
	vg_sh.n_fs = nondet_size(); __CPROVER_assume(vg_sh.n_fs >= 1 && vg_sh.n_fs < 1000);
	vg_sh.n_iters = nondet_size(); __CPROVER_assume(vg_sh.n_iters < 1000);
	vg_sh.reload_needed = nondet_bool();
	vg_now.tv_sec = nondet_long(); vg_now.tv_nsec = nondet_long(); __CPROVER_assume(vg_now.tv_sec >= 1 && vg_now.tv_sec < ((long)1 << 40) && vg_now.tv_nsec >= 0 && vg_now.tv_nsec < 1000000000);
	vg_sh.fs_last.tv_sec = nondet_long(); vg_sh.fs_last.tv_nsec = nondet_long();
	__CPROVER_assume(vg_sh.fs_last.tv_sec >= 0 && vg_sh.fs_last.tv_nsec >= 0 && vg_sh.fs_last.tv_nsec < 1000000000);
	__CPROVER_assume(vg_sh.fs_last.tv_sec < vg_now.tv_sec || (vg_sh.fs_last.tv_sec == vg_now.tv_sec && vg_sh.fs_last.tv_nsec <= vg_now.tv_nsec));   /* timestamps come from the clock */
	vg_sh.my_fs = &vg_myfs; vg_myfs.user = &vg_sh;
	vg_nreaders = nondet_u32(); __CPROVER_assume(vg_nreaders <= NR);
	/* shared-state invariant: before the first reload (timestamp still zero) nothing is loaded and a reload is pending (mtbl_fileset_init) */
	if (vg_sh.fs_last.tv_sec == 0 && vg_sh.fs_last.tv_nsec == 0) __CPROVER_assume(vg_nreaders == 0 && vg_sh.reload_needed);
	for (unsigned i = 0; i < NR; i++) { vg_readers[i].idx = i; vg_readers[i].gen = vg_gen; vg_rnull[i] = nondet_bool(); vg_fname_ok[i] = nondet_bool(); vg_reader_ok[i] = nondet_bool(); }
}
static void vg_check_current(struct mtbl_fileset *f, const char *u)
{
	VG_P("C07", f->fs_last.tv_sec == f->shared_fs->fs_last.tv_sec && f->fs_last.tv_nsec == f->shared_fs->fs_last.tv_nsec, "after the call the handle carries the shared set's timestamp");
	VG_P("C07", f->merger != NULL && f->merger->alive && f->merger->gen == vg_gen, "after the call the handle's merger is built from the reader set as of the most recent reload");
	for (unsigned i = 0; i < NR; i++) {
		_Bool want = (i < vg_nreaders) && !vg_rnull[i] && (!f->fname_filter || vg_fname_ok[i]) && (!f->reader_filter || vg_reader_ok[i]);
		VG_P("C07", f->merger->has[i] == want && !f->merger->dup, "the merger holds exactly the opened tables of the set that pass the handle's filename and reader filters, each once");
	}
}

/* ======================================================================= mtbl_fileset_reload */
void h_fileset_reload_step(void)
{
	vg_any_shared();
	struct mtbl_fileset *f = vg_any_handle();
	size_t iters0 = vg_sh.n_iters; _Bool needed0 = vg_sh.reload_needed; struct timespec last0 = vg_sh.fs_last; unsigned gen0 = vg_gen;
	mtbl_fileset_reload(f);
	VG_REACH("mtbl_fileset_reload returns");
	vg_check_current(f, "");
	VG_P("C07", !(iters0 > 0) || (vg_reload_calls == 0 && vg_gen == gen0), "no reload happens while an iterator is open");
	_Bool never = (f->reload_interval == MTBL_FILESET_RELOAD_INTERVAL_NEVER);
	if (iters0 == 0 && needed0) VG_P("C07", vg_reload_calls == 1 && !vg_sh.reload_needed, "a deferred reload_now is carried out by the first reload once no iterator is open");
	if (iters0 == 0 && !needed0 && !never && vg_now.tv_sec - last0.tv_sec > (long)f->reload_interval) VG_P("C07", vg_reload_calls == 1, "a reload happens once more than the reload interval has elapsed");
	if (!needed0 && never) VG_P("C07", vg_reload_calls == 0, "with interval NEVER nothing is reloaded unless asked for");
	VG_P("C07", vg_reload_calls <= 1, "at most one reload per call");
	VG_P("C07", needed0 ==> (vg_sh.reload_needed == (vg_reload_calls == 0)), "a pending reload request is cleared only by an actual reload");
	VG_P("C18", vg_mergers_live == 1, "rebuilding the merger destroys the old one");
}

/* ======================================================================= mtbl_fileset_reload_now */
void h_fileset_reload_now_step(void)
{
	vg_any_shared();
	struct mtbl_fileset *f = vg_any_handle();
	size_t iters0 = vg_sh.n_iters; unsigned gen0 = vg_gen;
	_Bool current0 = (f->fs_last.tv_sec == vg_sh.fs_last.tv_sec && f->fs_last.tv_nsec == vg_sh.fs_last.tv_nsec);
	mtbl_fileset_reload_now(f);
	VG_REACH("mtbl_fileset_reload_now returns");
	if (iters0 > 0) {
		VG_P("C07", vg_reload_calls == 0 && vg_gen == gen0 && vg_sh.reload_needed, "with an iterator open reload_now only records the request");
	} else {
		VG_P("C07", vg_reload_calls == 1 && !vg_sh.reload_needed, "without open iterators reload_now reloads immediately");
		vg_check_current(f, "");
	}
	VG_P("C18", vg_mergers_live == 1, "rebuilding the merger destroys the old one");
}

/* ======================================================================= source operations + iterator life cycle */
void h_fileset_iter_step(void)
{
	vg_any_shared();
	struct mtbl_fileset *f = vg_any_handle();
	size_t iters0 = vg_sh.n_iters; unsigned in_op = nondet_u32(); __CPROVER_assume(in_op < 4);
	uint8_t k[1] = {0};
	struct mtbl_iter *it;
	if (in_op == 0) it = fileset_source_iter(f); else if (in_op == 1) it = fileset_source_get(f, k, 1);
	else if (in_op == 2) it = fileset_source_get_prefix(f, k, 1); else it = fileset_source_get_range(f, k, 1, k, 1);
	VG_REACH("source operation returns");
	VG_P("C07", vg_used_merger == f->merger && f->merger->alive && f->merger->gen == vg_gen, "a new iterator is taken from a merger built from the reader set as of the most recent reload");
	vg_check_current(f, "");
	VG_P("C07", vg_sh.n_iters == iters0 + 1 && it != NULL && vg_inner_made == 1, "an open iterator is counted on the shared fileset");
	unsigned gen1 = vg_gen; unsigned calls1 = vg_reload_calls;
	/* while it is open, reloads through this or any other handle leave the reader set alone */
	struct mtbl_fileset *g = vg_any_handle();
	if (nondet_bool()) mtbl_fileset_reload(g); else mtbl_fileset_reload_now(g);
	VG_P("C07", vg_gen == gen1 && vg_reload_calls == calls1, "iterators opened earlier pin their snapshot: no reload through any handle while they are open");
	VG_P("C07", f->merger->alive, "the pinned iterator's merger stays alive");
	/* close */
	vg_outer_free(vg_outer_clos);
	VG_P("C07,C18", vg_sh.n_iters == iters0 && vg_inner_live == 0, "closing the iterator releases it and uncounts it");
}

/* ======================================================================= dup / destroy in any order */
void h_fileset_dup_destroy(void)
{
	vg_any_shared();
	/* the shared state is heap allocated (mtbl_fileset_destroy frees it with the last handle) */
	struct shared_fileset *sh = malloc(sizeof(*sh)); *sh = vg_sh; sh->n_fs = 1; sh->my_fs = &vg_myfs; vg_myfs.user = sh;
	struct mtbl_fileset *a = vg_any_handle(); a->shared_fs = sh; a->source = mtbl_source_init(fileset_source_iter, fileset_source_get, fileset_source_get_prefix, fileset_source_get_range, NULL, a);
	struct mtbl_fileset_options o; o.reload_interval = nondet_u32(); o.merge = NULL; o.merge_clos = NULL; o.dupsort = NULL; o.dupsort_clos = NULL;
	o.fname_filter = nondet_bool() ? vg_fname_filter : NULL; o.fname_filter_clos = NULL; o.reader_filter = nondet_bool() ? vg_reader_filter : NULL; o.reader_filter_clos = NULL;
	int mergers0 = vg_mergers_live;
	struct mtbl_fileset *b = mtbl_fileset_dup(a, &o);
	VG_REACH("mtbl_fileset_dup returns");
	VG_P("C07", b != NULL && b != a && b->shared_fs == sh && sh->n_fs == 2, "a dup shares the reader set of the original and is counted");
	VG_P("C07", b->merger != NULL && b->merger != a->merger && b->fname_filter == o.fname_filter && b->reader_filter == o.reader_filter && b->reload_interval == o.reload_interval, "a dup has its own merger, filters and reload interval");
	VG_P("C07", !(b->fs_last.tv_sec == sh->fs_last.tv_sec && b->fs_last.tv_nsec == sh->fs_last.tv_nsec) || (sh->fs_last.tv_sec == 0 && sh->fs_last.tv_nsec == 0), "a fresh dup is not current until its first reload (its empty merger is never taken for a snapshot of a loaded set)");
	/* the dup becomes usable through the normal reload */
	mtbl_fileset_reload(b);
	vg_check_current(b, "");
	/* destroy in either order */
	_Bool in_a_first = nondet_bool();
	struct mtbl_fileset *x = in_a_first ? a : b, *y = in_a_first ? b : a;
	mtbl_fileset_destroy(&x);
	VG_P("C07,C18", x == NULL && vg_myfs_destroyed == 0 && sh->n_fs == 1, "destroying one handle leaves the shared reader set to the other");
	VG_P("C07", y->merger != NULL && y->merger->alive && y->shared_fs == sh, "the surviving handle stays valid");
	mtbl_fileset_destroy(&y);
	VG_P("C18", y == NULL && vg_myfs_destroyed == 1 && vg_mergers_live == mergers0 - 1, "the last handle releases the shared reader set, and every handle releases its own merger");
}
