/* C06 / C18: mtbl_sorter_iter (mtbl/sorter.c, real) under DFCC with a loop contract, for ANY number of spilled chunks:
 * a pending batch is flushed first (failure -> NULL), the output merger gets the sorter's own merge function and closure, the
 * result handler is joined BEFORE the list of chunk readers is read (pooled sorters: the list is complete only then), every chunk
 * reader's source is added to the merger exactly once, in order (vg_k = universal chunk index), and the sorter is marked as
 * iterating on the way out, so that later add / write calls are refused (mtbl_sorter_add: group so_add_dfcc). */
#include "mtbl/sorter.c"
#include "spec/ghost.h"

size_t vg_k;                                   /* universal index: never assigned */
unsigned vg_seq;
struct { unsigned calls, seq; struct mtbl_sorter *s; mtbl_res ret; } vg_fl;
struct { unsigned inits, sets, destroys; struct mtbl_merger_options *obj; mtbl_merge_func fn; void *clos; unsigned set_seq; } vg_mo;
struct { unsigned calls, seq; const struct mtbl_merger_options *opt; struct mtbl_merger *ret; unsigned sets_at_call; } vg_mi;
struct { unsigned calls, seq; } vg_rh;
struct { unsigned long calls; const struct mtbl_source *src_k; struct mtbl_merger *m; unsigned first_seq; unsigned bad_m; } vg_as;
struct { unsigned calls; struct mtbl_merger *m; unsigned long adds_at_call; } vg_ms;
struct { unsigned calls; struct mtbl_iter *ret; } vg_si;
struct { unsigned calls; void *clos; struct mtbl_iter *ret; } vg_ii;
static struct sorter_iter vg_it_obj; static struct mtbl_merger_options *vg_mopt_obj;

void *my_calloc__cap(size_t a, size_t b) __CPROVER_requires(1) __CPROVER_assigns() __CPROVER_ensures(__CPROVER_return_value == (void *)&vg_it_obj) ;
void free__cap(void *p) __CPROVER_requires(1) __CPROVER_assigns() __CPROVER_ensures(1) ;
mtbl_res _mtbl_sorter_flush__cap(struct mtbl_sorter *s)
__CPROVER_requires(vg_fl.calls == 0)
__CPROVER_assigns(__CPROVER_object_whole(&vg_fl), vg_seq)
__CPROVER_ensures(vg_fl.calls == 1 && vg_fl.s == s && __CPROVER_return_value == vg_fl.ret && vg_seq == __CPROVER_old(vg_seq) + 1 && vg_fl.seq == vg_seq)
;
struct mtbl_merger_options *mtbl_merger_options_init__cap(void)
__CPROVER_requires(vg_mo.inits == 0)
__CPROVER_assigns(__CPROVER_object_whole(&vg_mo))
__CPROVER_ensures(vg_mo.inits == 1 && vg_mo.sets == 0 && vg_mo.destroys == 0 && __CPROVER_return_value == vg_mo.obj && vg_mo.obj != NULL)
;
void mtbl_merger_options_set_merge_func__cap(struct mtbl_merger_options *o, mtbl_merge_func fn, void *clos)
__CPROVER_requires(vg_mo.sets == 0 && o == vg_mo.obj)
__CPROVER_assigns(__CPROVER_object_whole(&vg_mo), vg_seq)
__CPROVER_ensures(vg_mo.sets == 1 && vg_mo.fn == fn && vg_mo.clos == clos && vg_mo.inits == __CPROVER_old(vg_mo.inits) && vg_mo.destroys == __CPROVER_old(vg_mo.destroys) && vg_mo.obj == __CPROVER_old(vg_mo.obj)
                  && vg_seq == __CPROVER_old(vg_seq) + 1 && vg_mo.set_seq == vg_seq)
;
void mtbl_merger_options_destroy__cap(struct mtbl_merger_options **o)
__CPROVER_requires(*o == vg_mo.obj)
__CPROVER_assigns(__CPROVER_object_whole(&vg_mo), *o)
__CPROVER_ensures(vg_mo.destroys == __CPROVER_old(vg_mo.destroys) + 1 && vg_mo.inits == __CPROVER_old(vg_mo.inits) && vg_mo.sets == __CPROVER_old(vg_mo.sets) && vg_mo.fn == __CPROVER_old(vg_mo.fn) && vg_mo.clos == __CPROVER_old(vg_mo.clos)
                  && vg_mo.obj == __CPROVER_old(vg_mo.obj) && vg_mo.set_seq == __CPROVER_old(vg_mo.set_seq))
;
struct mtbl_merger *mtbl_merger_init__cap(const struct mtbl_merger_options *o)
__CPROVER_requires(vg_mi.calls == 0)
__CPROVER_assigns(__CPROVER_object_whole(&vg_mi), vg_seq)
__CPROVER_ensures(vg_mi.calls == 1 && vg_mi.opt == o && __CPROVER_return_value == vg_mi.ret && vg_mi.ret != NULL && vg_mi.sets_at_call == vg_mo.sets && vg_seq == __CPROVER_old(vg_seq) + 1 && vg_mi.seq == vg_seq)
;
void result_handler_destroy__cap(struct result_handler **rh)
__CPROVER_requires(vg_rh.calls == 0)
__CPROVER_assigns(__CPROVER_object_whole(&vg_rh), vg_seq, *rh)
__CPROVER_ensures(vg_rh.calls == 1 && *rh == NULL && vg_seq == __CPROVER_old(vg_seq) + 1 && vg_rh.seq == vg_seq)
;
/* the source of a reader: an injective ghost function of the reader (its address + 1) */
const struct mtbl_source *mtbl_reader_source__cap(struct mtbl_reader *r)
__CPROVER_requires(1) __CPROVER_assigns()
__CPROVER_ensures(__CPROVER_return_value == (const struct mtbl_source *)((const char *)r + 1))
;
void mtbl_merger_add_source__cap(struct mtbl_merger *m, const struct mtbl_source *src)
__CPROVER_requires(1)
__CPROVER_assigns(__CPROVER_object_whole(&vg_as), vg_seq)
__CPROVER_ensures(vg_as.calls == __CPROVER_old(vg_as.calls) + 1 && vg_as.src_k == (__CPROVER_old(vg_as.calls) == vg_k ? src : __CPROVER_old(vg_as.src_k)) && vg_seq == __CPROVER_old(vg_seq) + 1)
__CPROVER_ensures(vg_as.first_seq == (__CPROVER_old(vg_as.calls) == 0 ? vg_seq : __CPROVER_old(vg_as.first_seq)) && vg_as.bad_m == (__CPROVER_old(vg_as.bad_m) + (m != vg_mi.ret ? 1u : 0u)) && vg_as.m == m)
;
const struct mtbl_source *mtbl_merger_source__cap(struct mtbl_merger *m)
__CPROVER_requires(vg_ms.calls == 0)
__CPROVER_assigns(__CPROVER_object_whole(&vg_ms))
__CPROVER_ensures(vg_ms.calls == 1 && vg_ms.m == m && vg_ms.adds_at_call == vg_as.calls && __CPROVER_return_value == (const struct mtbl_source *)((const char *)m + 1))
;
struct mtbl_iter *mtbl_source_iter__cap(const struct mtbl_source *s)
__CPROVER_requires(vg_si.calls == 0)
__CPROVER_assigns(__CPROVER_object_whole(&vg_si))
__CPROVER_ensures(vg_si.calls == 1 && __CPROVER_return_value == vg_si.ret)
;
struct mtbl_iter *mtbl_iter_init__cap(mtbl_iter_seek_func a, mtbl_iter_next_func b, mtbl_iter_free_func c, void *clos)
__CPROVER_requires(vg_ii.calls == 0)
__CPROVER_assigns(__CPROVER_object_whole(&vg_ii))
__CPROVER_ensures(vg_ii.calls == 1 && vg_ii.clos == clos && __CPROVER_return_value == vg_ii.ret && vg_ii.ret != NULL)
;
#define VG_PENDING (__CPROVER_old(s->vec->_n) > 0)
#define VG_FAIL (VG_PENDING && vg_fl.ret != mtbl_res_success)
struct mtbl_iter *mtbl_sorter_iter__spec(struct mtbl_sorter *s)
__CPROVER_requires(__CPROVER_is_fresh(s, sizeof(*s)) && __CPROVER_is_fresh(s->vec, sizeof(entry_vec)) && __CPROVER_is_fresh(s->readers, sizeof(reader_vec)))
__CPROVER_requires(s->readers->_n <= ((size_t)1 << 28) && __CPROVER_is_fresh(s->readers->_v, s->readers->_n * sizeof(struct mtbl_reader *) + 8))
__CPROVER_requires(vg_seq == 0 && vg_fl.calls == 0 && vg_mo.inits == 0 && vg_mo.sets == 0 && vg_mo.destroys == 0 && vg_mi.calls == 0 && vg_rh.calls == 0 && vg_as.calls == 0 && vg_as.bad_m == 0 && vg_ms.calls == 0 && vg_si.calls == 0 && vg_ii.calls == 0)
__CPROVER_assigns(s->iterating, s->rhandler, vg_seq, __CPROVER_object_whole(&vg_fl), __CPROVER_object_whole(&vg_mo), __CPROVER_object_whole(&vg_mi), __CPROVER_object_whole(&vg_rh), __CPROVER_object_whole(&vg_as),
                  __CPROVER_object_whole(&vg_ms), __CPROVER_object_whole(&vg_si), __CPROVER_object_whole(&vg_ii), __CPROVER_object_whole(&vg_it_obj))
/* a pending batch is flushed first; if that fails the result is NULL */
__CPROVER_ensures(vg_fl.calls == (VG_PENDING ? 1 : 0) && (vg_fl.calls == 1 ==> vg_fl.s == s))
__CPROVER_ensures(VG_FAIL ==> (__CPROVER_return_value == NULL && vg_mi.calls == 0 && vg_as.calls == 0))
/* the output merger folds with the sorter's own merge function */
__CPROVER_ensures(!VG_FAIL ==> (vg_mo.sets == 1 && vg_mo.fn == s->opt.merge && vg_mo.clos == s->opt.merge_clos && vg_mi.calls == 1 && vg_mi.opt == vg_mo.obj && vg_mi.sets_at_call == 1 && vg_mo.destroys == 1))
/* the result handler is joined before the chunk list is read; every chunk reader is added exactly once, in order, to that merger */
__CPROVER_ensures(!VG_FAIL ==> (vg_rh.calls == 1 && (!VG_PENDING || vg_fl.seq < vg_rh.seq) && vg_as.calls == s->readers->_n && (vg_as.calls == 0 || vg_rh.seq < vg_as.first_seq) && vg_as.bad_m == 0))
__CPROVER_ensures((!VG_FAIL && vg_k < s->readers->_n) ==> vg_as.src_k == (const struct mtbl_source *)((const char *)s->readers->_v[vg_k] + 1))
/* the iterator reads from that merger, made after all chunks were added; the sorter is marked as iterating */
__CPROVER_ensures(!VG_FAIL ==> (vg_ms.calls == 1 && vg_ms.m == vg_mi.ret && vg_ms.adds_at_call == s->readers->_n && vg_si.calls == 1 && vg_ii.calls == 1 && __CPROVER_return_value == vg_ii.ret && s->iterating))
;
void h_sorter_iter_dfcc(void)
{
	struct mtbl_sorter *s;
	struct mtbl_iter *it = mtbl_sorter_iter(s);
	VG_REACH("mtbl_sorter_iter returns");
}
