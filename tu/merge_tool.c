/* C04 (observation path "output file of src/mtbl_merge"): src/mtbl_merge.c merge() and merge_func() (real): every entry the
 * merger's iterator yields is handed to the writer exactly once, in order; a refused entry stops the tool loudly; the user's
 * merge function receives exactly the operands the library passes and its result is handed back untouched. */
#define main mtbl_merge_main
#include "src/mtbl_merge.c"
#undef main
#include "spec/ghost.h"
struct mtbl_iter { unsigned pos; }; struct mtbl_writer { int d; }; struct mtbl_merger { int d; }; struct mtbl_source { int d; };
static struct mtbl_iter vg_it; static struct mtbl_writer vg_w; static struct mtbl_merger vg_m; static struct mtbl_source vg_s;
static unsigned vg_n, vg_adds, vg_refuse_at; static int vg_iters_live, vg_mergers_live = 1, vg_writers_live = 1; static _Bool vg_order_ok = 1;
static uint8_t vg_k[4], vg_v[4];
const struct mtbl_source *mtbl_merger_source(struct mtbl_merger *m) { VG_P("C04", m == &vg_m, "the output is read from the merger the inputs were added to"); return &vg_s; }
struct mtbl_iter *mtbl_source_iter(const struct mtbl_source *s) { vg_it.pos = 0; vg_iters_live++; return &vg_it; }
void mtbl_iter_destroy(struct mtbl_iter **it) { if (*it) { vg_iters_live--; *it = NULL; } }
mtbl_res mtbl_iter_next(struct mtbl_iter *it, const uint8_t **k, size_t *lk, const uint8_t **v, size_t *lv)
{ if (it->pos >= vg_n) return mtbl_res_failure; *k = &vg_k[it->pos]; *lk = 1; *v = &vg_v[it->pos]; *lv = 1; it->pos++; return mtbl_res_success; }
mtbl_res mtbl_writer_add(struct mtbl_writer *w, const uint8_t *k, size_t lk, const uint8_t *v, size_t lv)
{
	if (!(w == &vg_w && k == &vg_k[vg_adds] && v == &vg_v[vg_adds] && lk == 1 && lv == 1)) vg_order_ok = 0;
	if (vg_adds == vg_refuse_at) { vg_adds++; return mtbl_res_failure; }
	vg_adds++; return mtbl_res_success;
}
void mtbl_merger_destroy(struct mtbl_merger **m) { if (*m) { vg_mergers_live--; *m = NULL; } }
void mtbl_writer_destroy(struct mtbl_writer **w) { if (*w) { vg_writers_live--; *w = NULL; } }
void h_merge_tool(void)
{
	vg_n = nondet_u32(); __CPROVER_assume(vg_n <= 4); vg_refuse_at = nondet_u32();
	merger = &vg_m; writer = &vg_w; count = 0;   /* statistics output every STATS_INTERVAL entries is not part of the property; symbolic 64-bit modulo is out of SAT reach */
	merge();
	VG_REACH("merge returns");
	VG_P("C04", vg_refuse_at >= vg_n, "merge() only returns when the writer accepted every entry (a refusal stops the tool loudly)");
	VG_P("C04", vg_order_ok && vg_adds == vg_n, "every merged entry is handed to the output writer exactly once, in iteration order");
	VG_P("C18", vg_iters_live == 0 && vg_mergers_live == 0 && vg_writers_live == 0, "iterator, merger and writer are destroyed (the writer's destroy finishes the file)");
}
/* merge_func: pass-through to the user's function */
static const uint8_t *vg_a[3]; static size_t vg_l[3]; static void *vg_clos; static uint8_t **vg_out; static size_t *vg_outl; static unsigned vg_user_calls;
static void vg_user_merge(void *clos, const uint8_t *key, size_t lk, const uint8_t *v0, size_t l0, const uint8_t *v1, size_t l1, uint8_t **out, size_t *lo)
{ vg_user_calls++; vg_clos = clos; vg_a[0] = key; vg_l[0] = lk; vg_a[1] = v0; vg_l[1] = l0; vg_a[2] = v1; vg_l[2] = l1; vg_out = out; vg_outl = lo; }
void h_merge_func(void)
{
	user_func_merge = vg_user_merge;
	void *c = nondet_ptr(); const uint8_t *k = nondet_ptr(), *v0 = nondet_ptr(), *v1 = nondet_ptr(); size_t lk = nondet_size(), l0 = nondet_size(), l1 = nondet_size(); uint8_t *o; size_t lo;
	merge_func(c, k, lk, v0, l0, v1, l1, &o, &lo);
	VG_REACH("merge_func returns");
	VG_P("C04", vg_user_calls == 1 && vg_clos == c && vg_a[0] == k && vg_l[0] == lk && vg_a[1] == v0 && vg_l[1] == l0 && vg_a[2] == v1 && vg_l[2] == l1 && vg_out == &o && vg_outl == &lo,
	     "the user's merge function is called once with exactly the key, the two values (in order) and the result slots the library passed");
}
