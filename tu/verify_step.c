/* C12: src/mtbl_verify.c verify_data_blocks (real) over a symbolic file of <= 3 data blocks, v1 or v2 framing,
 * each block's stored checksum intact or damaged, any claimed block count / byte total. */
#include "src/mtbl_verify.c"
#include "spec/ghost.h"

#define NB 3
#define PAYLEN 6
static uint8_t vg_file[64]; static size_t vg_hdr; static _Bool vg_bad[NB]; static uint32_t vg_crc[NB]; static unsigned vg_crc_calls[NB]; static unsigned vg_other_crc_calls;
static int vg_maps;
void *mmap(void *a, size_t len, int prot, int flags, int fd, off_t off) { vg_maps++; return vg_file; }
int munmap(void *a, size_t len) { vg_maps--; return 0; }
uint32_t mtbl_crc32c(const uint8_t *buf, size_t size)
{
	for (unsigned j = 0; j < NB; j++) if (buf == vg_file + (vg_hdr + PAYLEN) * j + vg_hdr && size == PAYLEN) { vg_crc_calls[j]++; return vg_crc[j]; }
	vg_other_crc_calls++; return nondet_u32();
}
int isatty(int fd) { return 0; }

void h_verify_sweep(void)
{
	mtbl_file_version in_ver = nondet_bool() ? MTBL_FORMAT_V1 : MTBL_FORMAT_V2;
	vg_hdr = in_ver == MTBL_FORMAT_V1 ? 8 : 5;
	unsigned in_nblocks = nondet_u32(); __CPROVER_assume(in_nblocks >= 1 && in_nblocks <= NB);
	for (unsigned j = 0; j < NB; j++) {
		uint8_t *p = vg_file + (vg_hdr + PAYLEN) * j;
		vg_bad[j] = nondet_bool(); vg_crc[j] = nondet_u32();
		uint32_t stored = nondet_u32(); __CPROVER_assume((stored != vg_crc[j]) == vg_bad[j]);
		if (in_ver == MTBL_FORMAT_V1) { p[0] = PAYLEN; p[1] = p[2] = p[3] = 0; p[4] = stored; p[5] = stored >> 8; p[6] = stored >> 16; p[7] = stored >> 24; }
		else { p[0] = PAYLEN; p[1] = stored; p[2] = stored >> 8; p[3] = stored >> 16; p[4] = stored >> 24; }
	}
	uint64_t bytes = (vg_hdr + PAYLEN) * in_nblocks;           /* a written file's trailer: true count and true byte total */
	bool ok = verify_data_blocks(3, "f", 0, bytes, in_nblocks, in_ver);
	VG_REACH("verify_data_blocks returns");
	_Bool any_bad = 0; for (unsigned j = 0; j < NB; j++) if (j < in_nblocks && vg_bad[j]) any_bad = 1;
	VG_P("C12", ok == !any_bad, "the sweep reports OK exactly when every data block's stored checksum matches the checksum of its stored bytes (first, middle and last block alike)");
	if (ok) for (unsigned j = 0; j < NB; j++) if (j < in_nblocks) VG_P("C12", vg_crc_calls[j] == 1, "every data block is checksummed exactly once, over exactly its stored bytes");
	VG_P("C12", vg_other_crc_calls == 0, "no checksum is computed over anything but a block's stored bytes");
	VG_P("C18", vg_maps == 0 || !ok, "the mapping is released");
}
