/* C12: src/mtbl_verify.c verify_data_blocks (real) over a symbolic file of <= 3 data blocks, v1 or v2 framing,
 * each block's stored checksum intact or damaged, any claimed block count / byte total. */
#include "src/mtbl_verify.c"
#include "spec/ghost.h"

#define NB 3
#define PAYLEN 6
static uint8_t vg_file[64]; static size_t vg_hdr; static _Bool vg_bad[NB]; static uint32_t vg_crc[NB]; static unsigned vg_crc_calls[NB]; static unsigned vg_other_crc_calls;
static int vg_maps;
void *mmap(void *a, size_t len, int prot, int flags, int fd, off_t off) { vg_maps++; return vg_file; }
int munmap(void *a, size_t len) { vg_maps--; return 0; }
uint32_t mtbl_crc32c(const uint8_t *buf, size_t size)
{
	for (unsigned j = 0; j < NB; j++) if (buf == vg_file + (vg_hdr + PAYLEN) * j + vg_hdr && size == PAYLEN) { vg_crc_calls[j]++; return vg_crc[j]; }
	vg_other_crc_calls++; return nondet_u32();
}
int isatty(int fd) { return 0; }

void h_verify_sweep(void)
{
	mtbl_file_version in_ver = nondet_bool() ? MTBL_FORMAT_V1 : MTBL_FORMAT_V2;
	vg_hdr = in_ver == MTBL_FORMAT_V1 ? 8 : 5;
	unsigned in_nblocks = nondet_u32(); __CPROVER_assume(in_nblocks >= 1 && in_nblocks <= NB);
	for (unsigned j = 0; j < NB; j++) {
		uint8_t *p = vg_file + (vg_hdr + PAYLEN) * j;
		vg_bad[j] = nondet_bool(); vg_crc[j] = nondet_u32();
		uint32_t stored = nondet_u32(); __CPROVER_assume((stored != vg_crc[j]) == vg_bad[j]);
		if (in_ver == MTBL_FORMAT_V1) { p[0] = PAYLEN; p[1] = p[2] = p[3] = 0; p[4] = stored; p[5] = stored >> 8; p[6] = stored >> 16; p[7] = stored >> 24; }
		else { p[0] = PAYLEN; p[1] = stored; p[2] = stored >> 8; p[3] = stored >> 16; p[4] = stored >> 24; }
	}
	uint64_t bytes = (vg_hdr + PAYLEN) * in_nblocks;           /* a written file's trailer: true count and true byte total */
	bool ok = verify_data_blocks(3, "f", 0, bytes, in_nblocks, in_ver);
	VG_REACH("verify_data_blocks returns");
	_Bool any_bad = 0; for (unsigned j = 0; j < NB; j++) if (j < in_nblocks && vg_bad[j]) any_bad = 1;
	VG_P("C12", ok == !any_bad, "the sweep reports OK exactly when every data block's stored checksum matches the checksum of its stored bytes (first, middle and last block alike)");
	if (ok) for (unsigned j = 0; j < NB; j++) if (j < in_nblocks) VG_P("C12", vg_crc_calls[j] == 1, "every data block is checksummed exactly once, over exactly its stored bytes");
	VG_P("C12", vg_other_crc_calls == 0, "no checksum is computed over anything but a block's stored bytes");
	VG_P("C18", vg_maps == 0 || !ok, "the mapping is released");
}

/* ======================================================================= verify_file: wiring of the whole check.
 * The reader is a stub with the reader's own contract (groups c19_reader_open / rd_*): opened with verify_checksums it stops the
 * process when the index block's checksum does not match; without the option it opens the file regardless.  verify_data_blocks
 * runs for real over the same symbolic file model. */
#include <stdarg.h>
struct mtbl_reader { int d; }; struct mtbl_reader_options { _Bool verify; };
static struct mtbl_reader vg_reader; static struct mtbl_reader_options vg_ropt; static struct mtbl_metadata *vg_meta;
static _Bool vg_index_bad, vg_open_fails, vg_reader_refuses; static unsigned vg_reader_live, vg_ok_prints, vg_failed_prints; static int vg_fd, vg_fds;
int open(const char *p, int fl, ...) { if (vg_open_fails) return -1; vg_fds++; return vg_fd; }
int close(int fd) { vg_fds--; return 0; }
struct mtbl_reader_options *mtbl_reader_options_init(void) { vg_ropt.verify = 0; return &vg_ropt; }
void mtbl_reader_options_set_verify_checksums(struct mtbl_reader_options *o, bool v) { o->verify = v; }
void mtbl_reader_options_destroy(struct mtbl_reader_options **o) { *o = NULL; }
struct mtbl_reader *mtbl_reader_init_fd(int fd, const struct mtbl_reader_options *o)
{
	VG_P("C12", fd == vg_fd, "the reader is opened on the file being verified");
	if (vg_reader_refuses) return NULL;
	if (o != NULL && o->verify && vg_index_bad) { VG_L(0, "reader with verify_checksums stops the process on a damaged index block"); __CPROVER_assume(0); }
	vg_reader_live++; return &vg_reader;
}
void mtbl_reader_destroy(struct mtbl_reader **r) { if (*r) { vg_reader_live--; *r = NULL; } }
struct vg_md { uint64_t index_block_offset, bytes_data_blocks, count_data_blocks; mtbl_file_version ver; } vg_mdv;
const struct mtbl_metadata *mtbl_reader_metadata(struct mtbl_reader *r) { return (const struct mtbl_metadata *)&vg_mdv; }
uint64_t mtbl_metadata_count_data_blocks(const struct mtbl_metadata *m) { return vg_mdv.count_data_blocks; }
uint64_t mtbl_metadata_bytes_data_blocks(const struct mtbl_metadata *m) { return vg_mdv.bytes_data_blocks; }
uint64_t mtbl_metadata_index_block_offset(const struct mtbl_metadata *m) { return vg_mdv.index_block_offset; }
mtbl_file_version mtbl_metadata_file_version(const struct mtbl_metadata *m) { return vg_mdv.ver; }
int printf(const char *fmt, ...) { if (fmt[0] == '%' && fmt[1] == 's' && fmt[2] == ':' && fmt[3] == ' ') { if (fmt[4] == 'O' && fmt[5] == 'K') vg_ok_prints++; if (fmt[4] == 'F') vg_failed_prints++; } return 0; }

void h_verify_file(void)
{
	mtbl_file_version in_ver = nondet_bool() ? MTBL_FORMAT_V1 : MTBL_FORMAT_V2;
	vg_hdr = in_ver == MTBL_FORMAT_V1 ? 8 : 5;
	unsigned in_nblocks = nondet_u32(); __CPROVER_assume(in_nblocks >= 1 && in_nblocks <= 2);
	for (unsigned j = 0; j < 2; j++) {
		uint8_t *p = vg_file + (vg_hdr + PAYLEN) * j;
		vg_bad[j] = nondet_bool(); vg_crc[j] = nondet_u32();
		uint32_t stored = nondet_u32(); __CPROVER_assume((stored != vg_crc[j]) == vg_bad[j]);
		if (in_ver == MTBL_FORMAT_V1) { p[0] = PAYLEN; p[1] = p[2] = p[3] = 0; p[4] = stored; p[5] = stored >> 8; p[6] = stored >> 16; p[7] = stored >> 24; }
		else { p[0] = PAYLEN; p[1] = stored; p[2] = stored >> 8; p[3] = stored >> 16; p[4] = stored >> 24; }
	}
	/* the trailer of a written file is true (C10): data blocks start at offset 0 here, the index follows them */
	vg_mdv.ver = in_ver; vg_mdv.count_data_blocks = in_nblocks; vg_mdv.bytes_data_blocks = (vg_hdr + PAYLEN) * in_nblocks; vg_mdv.index_block_offset = vg_mdv.bytes_data_blocks;
	vg_index_bad = nondet_bool(); vg_open_fails = nondet_bool(); vg_reader_refuses = nondet_bool(); vg_fd = nondet_int(); __CPROVER_assume(vg_fd >= 0);
	bool ok = verify_file("f");
	VG_REACH("verify_file returns");
	_Bool any_bad = 0; for (unsigned j = 0; j < 2; j++) if (j < in_nblocks && vg_bad[j]) any_bad = 1;
	VG_P("C12", !ok || (!vg_index_bad && !any_bad && !vg_open_fails && !vg_reader_refuses), "mtbl_verify never reports a file OK whose index block or any data block does not match its stored checksum");
	VG_P("C12", ok == (vg_ok_prints == 1) && (vg_ok_prints + vg_failed_prints <= 1), "OK is printed exactly when the file verified; never both verdicts");
	VG_P("C12", ok || any_bad || vg_index_bad || vg_open_fails || vg_reader_refuses, "an intact file that opens is reported OK");
	VG_P("C18", vg_reader_live == 0 && vg_maps == 0, "reader and mapping are released");
}
