/* C18 / C12 / C19: mtbl_reader_init_fd and mtbl_reader_destroy (mtbl/reader.c, real) under DFCC, for ANY file size and content
 * (fstat, mmap, the trailer parser, the decoders, the checksum and block_init are capture contracts with arbitrary results):
 *   - a file that is refused leaves nothing behind: before the mapping exists nothing was allocated, a failed mmap frees the
 *     reader object, and every refusal after a successful mmap goes through mtbl_reader_destroy exactly once;
 *   - mtbl_reader_destroy unmaps exactly the mapping (address and length), destroys the index block and the source, frees the
 *     reader, once each;
 *   - with verify_checksums the index block's checksum is computed over exactly its stored bytes and compared with the stored
 *     field before the reader is handed out (a mismatch stops at the function's assert). */
#include "mtbl/reader.c"
#include "spec/ghost.h"
struct { unsigned calls; off_t size; } vg_st;
struct { unsigned calls; void *ret; size_t len; int fd; } vg_mm;
struct { unsigned calls; void *addr; size_t len; } vg_um;
struct { unsigned calls; void *p; } vg_fr;
struct { unsigned calls; unsigned ok; const uint8_t *buf; } vg_mr;
struct { unsigned calls; struct mtbl_reader *r; unsigned maps_live_at_call; } vg_rd;
struct { unsigned calls; const uint8_t *p0, *p1; uint32_t r0, r1; } vg_f32;
struct { unsigned calls; const uint8_t *p; size_t ret; uint64_t val; } vg_v64;
struct { unsigned calls; const uint8_t *buf; size_t len; uint32_t ret; } vg_crc;
struct { unsigned calls; uint8_t *data; size_t size; struct block *ret; } vg_bi;
struct { unsigned calls; void *clos; struct mtbl_source *ret; } vg_si;
struct { unsigned blk, src; } vg_dd;
static struct mtbl_reader vg_robj;

int fstat__cap(int fd, struct stat *ss) __CPROVER_requires(vg_st.calls == 0) __CPROVER_assigns(__CPROVER_object_whole(&vg_st), ss->st_size) __CPROVER_ensures(vg_st.calls == 1 && ss->st_size == vg_st.size && __CPROVER_return_value == 0) ;
void *my_calloc__cap(size_t a, size_t b) __CPROVER_requires(1) __CPROVER_assigns(__CPROVER_object_whole(&vg_robj)) __CPROVER_ensures(__CPROVER_return_value == (void *)&vg_robj && vg_robj.index == NULL && vg_robj.source == NULL && vg_robj.data == NULL && !vg_robj.opt.verify_checksums) ;
void *memcpy__cap(void *d, const void *s, size_t n) __CPROVER_requires(d == (void *)&vg_robj.opt && n == sizeof(struct mtbl_reader_options)) __CPROVER_assigns(vg_robj.opt) __CPROVER_ensures(1) ;
void *mmap__cap(void *a, size_t len, int prot, int flags, int fd, off_t off)
__CPROVER_requires(vg_mm.calls == 0 && off == 0)
__CPROVER_assigns(__CPROVER_object_whole(&vg_mm))
__CPROVER_ensures(vg_mm.calls == 1 && vg_mm.len == len && vg_mm.fd == fd && __CPROVER_return_value == vg_mm.ret)
;
int munmap__cap(void *a, size_t len) __CPROVER_requires(vg_um.calls == 0) __CPROVER_assigns(__CPROVER_object_whole(&vg_um)) __CPROVER_ensures(vg_um.calls == 1 && vg_um.addr == a && vg_um.len == len && __CPROVER_return_value == 0) ;
void free__cap(void *p) __CPROVER_requires(vg_fr.calls == 0) __CPROVER_assigns(__CPROVER_object_whole(&vg_fr)) __CPROVER_ensures(vg_fr.calls == 1 && vg_fr.p == p) ;
bool metadata_read__cap(const uint8_t *buf, struct mtbl_metadata *m) __CPROVER_requires(vg_mr.calls == 0) __CPROVER_assigns(__CPROVER_object_whole(&vg_mr), *m) __CPROVER_ensures(vg_mr.calls == 1 && vg_mr.buf == buf && __CPROVER_return_value == (vg_mr.ok != 0)) ;
void mtbl_reader_destroy__cap(struct mtbl_reader **r)
__CPROVER_requires(vg_rd.calls == 0 && *r == &vg_robj)
__CPROVER_assigns(__CPROVER_object_whole(&vg_rd), *r)
__CPROVER_ensures(vg_rd.calls == 1 && vg_rd.r == __CPROVER_old(*r) && *r == NULL && vg_rd.maps_live_at_call == vg_mm.calls)
;
void reader_init_madvise__cap(struct mtbl_reader *r) __CPROVER_requires(1) __CPROVER_assigns() __CPROVER_ensures(1) ;
uint32_t mtbl_fixed_decode32__cap(const uint8_t *p)
__CPROVER_requires(vg_f32.calls < 2)
__CPROVER_assigns(__CPROVER_object_whole(&vg_f32))
__CPROVER_ensures(vg_f32.calls == __CPROVER_old(vg_f32.calls) + 1 && vg_f32.p0 == (__CPROVER_old(vg_f32.calls) == 0 ? p : __CPROVER_old(vg_f32.p0)) && vg_f32.p1 == (__CPROVER_old(vg_f32.calls) == 1 ? p : __CPROVER_old(vg_f32.p1))
                  && vg_f32.r0 == (__CPROVER_old(vg_f32.calls) == 0 ? __CPROVER_return_value : __CPROVER_old(vg_f32.r0)) && vg_f32.r1 == (__CPROVER_old(vg_f32.calls) == 1 ? __CPROVER_return_value : __CPROVER_old(vg_f32.r1)))
;
size_t mtbl_varint_decode64__cap(const uint8_t *p, uint64_t *v) __CPROVER_requires(vg_v64.calls == 0) __CPROVER_assigns(__CPROVER_object_whole(&vg_v64), *v) __CPROVER_ensures(vg_v64.calls == 1 && vg_v64.p == p && __CPROVER_return_value == vg_v64.ret && vg_v64.ret >= 1 && vg_v64.ret <= 10 && *v == vg_v64.val) ;
uint32_t mtbl_crc32c__cap(const uint8_t *buf, size_t len) __CPROVER_requires(vg_crc.calls == 0) __CPROVER_assigns(__CPROVER_object_whole(&vg_crc)) __CPROVER_ensures(vg_crc.calls == 1 && vg_crc.buf == buf && vg_crc.len == len && __CPROVER_return_value == vg_crc.ret) ;
struct block *block_init__cap(uint8_t *d, size_t n, bool nf) __CPROVER_requires(vg_bi.calls == 0) __CPROVER_assigns(__CPROVER_object_whole(&vg_bi)) __CPROVER_ensures(vg_bi.calls == 1 && vg_bi.data == d && vg_bi.size == n && __CPROVER_return_value == vg_bi.ret) ;
struct mtbl_source *mtbl_source_init__cap(mtbl_source_iter_func a, mtbl_source_get_func b, mtbl_source_get_prefix_func c, mtbl_source_get_range_func d, mtbl_source_free_func e, void *clos)
__CPROVER_requires(vg_si.calls == 0) __CPROVER_assigns(__CPROVER_object_whole(&vg_si)) __CPROVER_ensures(vg_si.calls == 1 && vg_si.clos == clos && __CPROVER_return_value == vg_si.ret) ;
void block_destroy__cap(struct block **b) __CPROVER_requires(vg_dd.blk == 0) __CPROVER_assigns(vg_dd.blk, *b) __CPROVER_ensures(vg_dd.blk == 1 && *b == NULL) ;
void mtbl_source_destroy__cap(struct mtbl_source **s) __CPROVER_requires(vg_dd.src == 0) __CPROVER_assigns(vg_dd.src, *s) __CPROVER_ensures(vg_dd.src == 1 && *s == NULL) ;

#define VG_MAPPED (vg_mm.calls == 1 && vg_mm.ret != MAP_FAILED)
#define VG_HDR (vg_robj.m.file_version == MTBL_FORMAT_V1 ? (size_t)4 : vg_v64.ret)
struct mtbl_reader *mtbl_reader_init_fd__spec(int fd, const struct mtbl_reader_options *opt)
__CPROVER_requires(opt == NULL || __CPROVER_is_fresh(opt, sizeof(*opt)))
__CPROVER_requires(vg_st.calls == 0 && vg_mm.calls == 0 && vg_um.calls == 0 && vg_fr.calls == 0 && vg_mr.calls == 0 && vg_rd.calls == 0 && vg_f32.calls == 0 && vg_v64.calls == 0 && vg_crc.calls == 0 && vg_bi.calls == 0 && vg_si.calls == 0)
__CPROVER_assigns(__CPROVER_object_whole(&vg_st), __CPROVER_object_whole(&vg_mm), __CPROVER_object_whole(&vg_um), __CPROVER_object_whole(&vg_fr), __CPROVER_object_whole(&vg_mr), __CPROVER_object_whole(&vg_rd), __CPROVER_object_whole(&vg_f32),
                  __CPROVER_object_whole(&vg_v64), __CPROVER_object_whole(&vg_crc), __CPROVER_object_whole(&vg_bi), __CPROVER_object_whole(&vg_si), __CPROVER_object_whole(&vg_robj))
/* the whole file and nothing else is mapped, from the caller's descriptor */
__CPROVER_ensures(vg_mm.calls <= 1 && (vg_mm.calls == 1 ==> (vg_mm.fd == fd && vg_mm.len == (size_t)vg_st.size && vg_st.size >= MTBL_METADATA_SIZE)))
/* refusal leaves nothing behind */
__CPROVER_ensures((__CPROVER_return_value == NULL && vg_mm.calls == 0) ==> (vg_fr.calls == 0 && vg_rd.calls == 0))
__CPROVER_ensures((__CPROVER_return_value == NULL && vg_mm.calls == 1 && !VG_MAPPED) ==> (vg_fr.calls == 1 && vg_fr.p == (void *)&vg_robj && vg_rd.calls == 0))
__CPROVER_ensures((__CPROVER_return_value == NULL && VG_MAPPED) ==> (vg_rd.calls == 1 && vg_rd.r == &vg_robj && vg_fr.calls == 0 && vg_robj.data == (uint8_t *)vg_mm.ret && vg_robj.len_data == vg_mm.len))
/* a reader handed out holds the mapping; nothing was released */
__CPROVER_ensures(__CPROVER_return_value != NULL ==> (__CPROVER_return_value == &vg_robj && VG_MAPPED && vg_rd.calls == 0 && vg_fr.calls == 0 && vg_um.calls == 0 && vg_robj.data == (uint8_t *)vg_mm.ret && vg_robj.len_data == vg_mm.len
                  && vg_bi.calls == 1 && vg_robj.index == vg_bi.ret && vg_si.calls == 1 && vg_si.clos == (void *)&vg_robj && vg_robj.source == vg_si.ret))
/* the index block: bytes right after its length prefix and checksum field; with verify_checksums its checksum was compared */
__CPROVER_ensures(__CPROVER_return_value != NULL ==> (vg_bi.data == vg_robj.data + vg_robj.m.index_block_offset + VG_HDR + 4))
__CPROVER_ensures((__CPROVER_return_value != NULL && vg_robj.opt.verify_checksums) ==> (vg_crc.calls == 1 && vg_crc.buf == vg_bi.data && vg_crc.len == vg_bi.size
                  && (vg_robj.m.file_version == MTBL_FORMAT_V1 ? (vg_f32.calls == 2 && vg_f32.p1 == vg_robj.data + vg_robj.m.index_block_offset + 4 && vg_f32.r1 == vg_crc.ret)
                                                                : (vg_f32.calls == 1 && vg_f32.p0 == vg_robj.data + vg_robj.m.index_block_offset + vg_v64.ret && vg_f32.r0 == vg_crc.ret))))
__CPROVER_ensures((__CPROVER_return_value != NULL && !vg_robj.opt.verify_checksums) ==> vg_crc.calls == 0)
;
void h_reader_initfd_dfcc(void) { int fd; const struct mtbl_reader_options *o; struct mtbl_reader *r = mtbl_reader_init_fd(fd, o); VG_REACH("mtbl_reader_init_fd returns"); }

void mtbl_reader_destroy__spec(struct mtbl_reader **r)
/* the non-NULL case (a NULL reader is skipped by the function's single test) */
__CPROVER_requires(__CPROVER_is_fresh(r, sizeof(*r)) && __CPROVER_is_fresh(*r, sizeof(struct mtbl_reader)))
__CPROVER_requires(vg_um.calls == 0 && vg_fr.calls == 0 && vg_dd.blk == 0 && vg_dd.src == 0)
__CPROVER_assigns(*r, (*r)->index, (*r)->source, __CPROVER_object_whole(&vg_um), __CPROVER_object_whole(&vg_fr), vg_dd.blk, vg_dd.src)
__CPROVER_ensures(__CPROVER_old(*r) != NULL ==> (vg_um.calls == 1 && vg_um.addr == (void *)__CPROVER_old((*r)->data) && vg_um.len == __CPROVER_old((*r)->len_data) && vg_dd.blk == 1 && vg_dd.src == 1
                  && vg_fr.calls == 1 && vg_fr.p == (void *)__CPROVER_old(*r) && *r == NULL))
;
void h_reader_destroy_dfcc(void) { struct mtbl_reader **r; mtbl_reader_destroy(r); VG_REACH("mtbl_reader_destroy returns"); }
