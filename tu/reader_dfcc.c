/* C03: the block-identity clause of the reader iterator's representation invariant, UNBOUNDED (any table, any block
 * contents): whenever the iterator holds a block, block_offset is the offset that block was loaded from.
 * reader_iter_next and reader_iter_seek are enforced under DFCC; block.c functions and get_block are replaced by
 * contracts; get_block's contract records (block, offset) in ghosts. */
#include "mtbl/reader.c"
#include "spec/ghost.h"

struct block *vg_blk_ptr; uint64_t vg_blk_off;          /* the block most recently loaded and the offset it came from */
struct block *vg_fresh_blk; struct block_iter *vg_fresh_bi;   /* what the allocation stubs hand out (non-NULL) */
uint64_t vg_dec_off; unsigned vg_get_block_calls;
uint8_t vg_ival[10]; uint8_t vg_ikey[4];

struct block *get_block__spec(struct mtbl_reader *r, uint64_t offset)
__CPROVER_requires(1)
__CPROVER_assigns(vg_blk_ptr, vg_blk_off, vg_get_block_calls)
__CPROVER_ensures(__CPROVER_return_value == vg_fresh_blk && vg_blk_ptr == vg_fresh_blk && vg_blk_off == offset && vg_get_block_calls == __CPROVER_old(vg_get_block_calls) + 1)
;
size_t mtbl_varint_decode64__spec(const uint8_t *p, uint64_t *value)
__CPROVER_requires(1) __CPROVER_assigns(*value) __CPROVER_ensures(*value == vg_dec_off)
;
bool block_iter_get__spec(struct block_iter *bi, const uint8_t **key, size_t *lk, const uint8_t **val, size_t *lv)
__CPROVER_requires(key != NULL && lk != NULL && val != NULL && lv != NULL)
__CPROVER_assigns(*key, *lk, *val, *lv)
__CPROVER_ensures(*val == vg_ival && *key == vg_ikey && *lk <= 4 && *lv <= 10)
;
bool block_iter_next__spec(struct block_iter *bi) __CPROVER_requires(1) __CPROVER_assigns() __CPROVER_ensures(1) ;
void block_iter_seek__spec(struct block_iter *bi, const uint8_t *k, size_t l) __CPROVER_requires(1) __CPROVER_assigns() __CPROVER_ensures(1) ;
void block_iter_seek_to_first__spec(struct block_iter *bi) __CPROVER_requires(1) __CPROVER_assigns() __CPROVER_ensures(1) ;
struct block_iter *block_iter_init__spec(struct block *b) __CPROVER_requires(1) __CPROVER_assigns() __CPROVER_ensures(__CPROVER_return_value == vg_fresh_bi) ;
void block_destroy__spec(struct block **b) __CPROVER_requires(1) __CPROVER_assigns(*b) __CPROVER_ensures(*b == NULL) ;
void block_iter_destroy__spec(struct block_iter **bi) __CPROVER_requires(1) __CPROVER_assigns(*bi) __CPROVER_ensures(*bi == NULL) ;
int bytes_compare__any(const uint8_t *a, size_t la, const uint8_t *b, size_t lb) __CPROVER_requires(1) __CPROVER_assigns() __CPROVER_ensures(1) ;
int memcmp__any(const void *a, const void *b, size_t n) __CPROVER_requires(1) __CPROVER_assigns() __CPROVER_ensures(1) ;

#define VG_RI1(it) ((it)->b == NULL || ((it)->b == vg_blk_ptr && (it)->block_offset == vg_blk_off))

mtbl_res reader_iter_next__spec(void *v, const uint8_t **key, size_t *len_key, const uint8_t **val, size_t *len_val)
__CPROVER_requires(__CPROVER_is_fresh(v, sizeof(struct reader_iter)))
__CPROVER_requires(__CPROVER_is_fresh(key, sizeof(*key)) && __CPROVER_is_fresh(len_key, sizeof(*len_key)) && __CPROVER_is_fresh(val, sizeof(*val)) && __CPROVER_is_fresh(len_val, sizeof(*len_val)))
__CPROVER_requires(((struct reader_iter *)v)->it_type == READER_ITER_TYPE_ITER || (__CPROVER_is_fresh(((struct reader_iter *)v)->k, sizeof(ubuf)) && ((struct reader_iter *)v)->it_type <= READER_ITER_TYPE_GET_RANGE))
__CPROVER_requires(vg_fresh_blk != NULL && vg_fresh_bi != NULL && vg_get_block_calls == 0)
__CPROVER_requires(VG_RI1((struct reader_iter *)v))
__CPROVER_assigns(*key, *len_key, *val, *len_val, __CPROVER_object_whole(v), vg_blk_ptr, vg_blk_off, vg_get_block_calls)
__CPROVER_ensures(VG_RI1((struct reader_iter *)v))
__CPROVER_ensures(vg_get_block_calls <= 1)
__CPROVER_ensures(vg_get_block_calls == 1 ==> vg_blk_off == vg_dec_off)
;
mtbl_res reader_iter_seek__spec(void *v, const uint8_t *key, size_t len_key)
__CPROVER_requires(__CPROVER_is_fresh(v, sizeof(struct reader_iter)))
__CPROVER_requires(vg_fresh_blk != NULL && vg_fresh_bi != NULL && vg_get_block_calls == 0)
__CPROVER_requires(VG_RI1((struct reader_iter *)v))
__CPROVER_assigns(__CPROVER_object_whole(v), vg_blk_ptr, vg_blk_off, vg_get_block_calls)
__CPROVER_ensures(VG_RI1((struct reader_iter *)v))
/* after a successful seek that found an index entry, the block held is the one that entry points at -- whether it was reused or loaded */
__CPROVER_ensures((__CPROVER_return_value == mtbl_res_success && ((struct reader_iter *)v)->valid) ==> (((struct reader_iter *)v)->b != NULL && ((struct reader_iter *)v)->block_offset == vg_dec_off))
;
void h_reader_next_dfcc(void) { void *v; const uint8_t **k, **val; size_t *lk, *lv; reader_iter_next(v, k, lk, val, lv); VG_REACH("reader_iter_next returns"); }
void h_reader_seek_dfcc(void) { void *v; const uint8_t *k; size_t lk; reader_iter_seek(v, k, lk); VG_REACH("reader_iter_seek returns"); }

/* ---- base case of the invariant: reader_iter_init (used by get / get_prefix / get_range) establishes it */
static struct reader_iter vg_it_obj; unsigned vg_frees;
void *my_calloc__cap(size_t a, size_t b) __CPROVER_requires(1) __CPROVER_assigns(__CPROVER_object_whole(&vg_it_obj)) __CPROVER_ensures(__CPROVER_return_value == (void *)&vg_it_obj && vg_it_obj.b == NULL && vg_it_obj.bi == NULL && vg_it_obj.index_iter == NULL) ;
void free__cap(void *p) __CPROVER_requires(p == (void *)&vg_it_obj) __CPROVER_assigns(vg_frees) __CPROVER_ensures(vg_frees == __CPROVER_old(vg_frees) + 1) ;
struct reader_iter *reader_iter_init__spec(struct mtbl_reader *r, const uint8_t *key, size_t len_key)
__CPROVER_requires(__CPROVER_is_fresh(r, sizeof(*r)))
__CPROVER_requires(vg_fresh_blk != NULL && vg_fresh_bi != NULL && vg_get_block_calls == 0 && vg_frees == 0)
__CPROVER_assigns(__CPROVER_object_whole(&vg_it_obj), vg_blk_ptr, vg_blk_off, vg_get_block_calls, vg_frees)
/* no block for the key (past the last block): nothing is left behind */
__CPROVER_ensures(__CPROVER_return_value == NULL ==> vg_frees == 1)
/* otherwise the iterator holds the block its index entry points at, knows that block's offset, and is positioned but has not yet returned the entry */
__CPROVER_ensures(__CPROVER_return_value != NULL ==> (__CPROVER_return_value == &vg_it_obj && vg_frees == 0 && vg_it_obj.r == r && vg_it_obj.b != NULL && VG_RI1(&vg_it_obj) && vg_it_obj.block_offset == vg_dec_off
                  && vg_get_block_calls == 1 && vg_it_obj.first && vg_it_obj.valid && vg_it_obj.bi != NULL && vg_it_obj.index_iter != NULL))
;
void h_reader_init_iter_dfcc(void) { struct mtbl_reader *r; const uint8_t *k; size_t l; struct reader_iter *it = reader_iter_init(r, k, l); VG_REACH("reader_iter_init returns"); }

/* ---- the four constructors: plain iterator (own positioning) and the bounded lookups (reader_iter_init's contract as callee) */
struct { unsigned calls; unsigned hint; } vg_ui;
struct { unsigned calls; ubuf *u; const uint8_t *src; size_t n; } vg_ua;
struct { unsigned calls; mtbl_iter_seek_func s; mtbl_iter_next_func n; mtbl_iter_free_func f; void *clos; struct mtbl_iter *ret; } vg_ii;
static ubuf vg_kbuf;
ubuf *ubuf_init__cap(unsigned hint) __CPROVER_requires(vg_ui.calls == 0) __CPROVER_assigns(__CPROVER_object_whole(&vg_ui)) __CPROVER_ensures(vg_ui.calls == 1 && vg_ui.hint == hint && __CPROVER_return_value == &vg_kbuf) ;
void ubuf_append__cap(ubuf *u, uint8_t const *e, size_t n) __CPROVER_requires(vg_ua.calls == 0) __CPROVER_assigns(__CPROVER_object_whole(&vg_ua)) __CPROVER_ensures(vg_ua.calls == 1 && vg_ua.u == u && vg_ua.src == e && vg_ua.n == n) ;
struct mtbl_iter *mtbl_iter_init__cap(mtbl_iter_seek_func s, mtbl_iter_next_func n, mtbl_iter_free_func f, void *clos)
__CPROVER_requires(vg_ii.calls == 0) __CPROVER_assigns(__CPROVER_object_whole(&vg_ii))
__CPROVER_ensures(vg_ii.calls == 1 && vg_ii.s == s && vg_ii.n == n && vg_ii.f == f && vg_ii.clos == clos && __CPROVER_return_value == vg_ii.ret && vg_ii.ret != NULL) ;
#define VG_CTOR_REQ \
__CPROVER_requires(__CPROVER_is_fresh(clos, sizeof(struct mtbl_reader))) \
__CPROVER_requires(vg_fresh_blk != NULL && vg_fresh_bi != NULL && vg_get_block_calls == 0 && vg_frees == 0 && vg_ui.calls == 0 && vg_ua.calls == 0 && vg_ii.calls == 0) \
__CPROVER_assigns(__CPROVER_object_whole(&vg_it_obj), vg_blk_ptr, vg_blk_off, vg_get_block_calls, vg_frees, __CPROVER_object_whole(&vg_ui), __CPROVER_object_whole(&vg_ua), __CPROVER_object_whole(&vg_ii))
#define VG_CTOR_ENS(TYPE) \
__CPROVER_ensures(__CPROVER_return_value == NULL ==> (vg_ii.calls == 0 && vg_frees == 1)) \
__CPROVER_ensures(__CPROVER_return_value != NULL ==> (__CPROVER_return_value == vg_ii.ret && vg_ii.clos == (void *)&vg_it_obj && vg_ii.s == reader_iter_seek && vg_ii.n == reader_iter_next && vg_ii.f == reader_iter_free \
                  && vg_it_obj.it_type == (TYPE) && VG_RI1(&vg_it_obj) && vg_it_obj.b != NULL && vg_it_obj.first && vg_it_obj.valid))
struct mtbl_iter *reader_iter__spec(void *clos)
VG_CTOR_REQ
VG_CTOR_ENS(READER_ITER_TYPE_ITER)
__CPROVER_ensures(__CPROVER_return_value != NULL ==> (vg_it_obj.block_offset == vg_dec_off && vg_get_block_calls == 1))
;
/* the bound of a lookup is a private copy of exactly the caller's bytes: key (get), prefix (get_prefix), key1 (get_range) */
struct mtbl_iter *reader_get__spec(void *clos, const uint8_t *key, size_t len_key)
VG_CTOR_REQ
VG_CTOR_ENS(READER_ITER_TYPE_GET)
__CPROVER_ensures(__CPROVER_return_value != NULL ==> (vg_it_obj.k == &vg_kbuf && vg_ua.calls == 1 && vg_ua.u == &vg_kbuf && vg_ua.src == key && vg_ua.n == len_key))
;
struct mtbl_iter *reader_get_prefix__spec(void *clos, const uint8_t *key, size_t len_key)
VG_CTOR_REQ
VG_CTOR_ENS(READER_ITER_TYPE_GET_PREFIX)
__CPROVER_ensures(__CPROVER_return_value != NULL ==> (vg_it_obj.k == &vg_kbuf && vg_ua.calls == 1 && vg_ua.u == &vg_kbuf && vg_ua.src == key && vg_ua.n == len_key))
;
struct mtbl_iter *reader_get_range__spec(void *clos, const uint8_t *key0, size_t len_key0, const uint8_t *key1, size_t len_key1)
VG_CTOR_REQ
VG_CTOR_ENS(READER_ITER_TYPE_GET_RANGE)
__CPROVER_ensures(__CPROVER_return_value != NULL ==> (vg_it_obj.k == &vg_kbuf && vg_ua.calls == 1 && vg_ua.u == &vg_kbuf && vg_ua.src == key1 && vg_ua.n == len_key1))
;
void h_reader_iter_ctor_dfcc(void) { void *c; struct mtbl_iter *it = reader_iter(c); VG_REACH("reader_iter returns"); }
void h_reader_get_ctor_dfcc(void) { void *c; const uint8_t *k; size_t l; struct mtbl_iter *it = reader_get(c, k, l); VG_REACH("reader_get returns"); }
void h_reader_get_prefix_ctor_dfcc(void) { void *c; const uint8_t *k; size_t l; struct mtbl_iter *it = reader_get_prefix(c, k, l); VG_REACH("reader_get_prefix returns"); }
void h_reader_get_range_ctor_dfcc(void) { void *c; const uint8_t *k, *k1; size_t l, l1; struct mtbl_iter *it = reader_get_range(c, k, l, k1, l1); VG_REACH("reader_get_range returns"); }
