/* Writer sessions through the PUBLIC interface only: mtbl_writer_init_fd on a descriptor positioned at any offset (foreign
 * bytes before the table), up to VG_ADDS mtbl_writer_add calls with symbolic keys (accepted or refused), mtbl_writer_destroy.
 * All of mtbl/writer.c runs for real; the environment (tu/writer_env.h) is the same as in the step harnesses.  The harness
 * never names a field of struct mtbl_writer, so it keeps deciding when the writer's internals are reorganised (the step
 * harnesses from arbitrary states then stop at an extraction break).  Truth = the file model + the harness's own count of
 * accepted entries.  Bound: sessions of <= VG_ADDS adds from a fresh writer. */
#include "mtbl/writer.c"
#include "spec/ghost.h"
#include "tu/writer_env.h"
#ifndef VG_ADDS
#define VG_ADDS 3
#endif
static struct block_builder vg_bbs[2]; static unsigned vg_bb_inits;
struct block_builder *block_builder_init(size_t ri) { struct block_builder *b = &vg_bbs[vg_bb_inits & 1]; vg_bb_inits++; b->est = 8; b->empty = 1; return b; }
static unsigned vg_dups; static int vg_orig_fd;
int dup(int fd) { vg_dups++; VG_P("C18", fd == vg_orig_fd, "the caller's descriptor is the one duplicated"); vg_wfd = nondet_int(); __CPROVER_assume(vg_wfd >= 0); return vg_wfd; }
off_t lseek(int fd, off_t o, int wh) { VG_P("C09", fd == vg_wfd && o == 0 && wh == SEEK_CUR, "the start offset is the descriptor's current position"); return vg_start; }

static int vg_lexcmp(const uint8_t *a, size_t la, const uint8_t *b, size_t lb)
{
	for (size_t i = 0; i < VG_KMAX; i++) { if (i >= la || i >= lb) break; if (a[i] != b[i]) return a[i] < b[i] ? -1 : 1; }
	return la < lb ? -1 : la > lb;
}
static unsigned vg_vlen(uint64_t v) { unsigned n = 1; while (v >= 128) { v >>= 7; n++; } return n; }

void h_writer_session(void)
{
	struct mtbl_writer_options o; struct mtbl_threadpool tp;
	o.compression_type = MTBL_COMPRESSION_NONE; o.compression_level = DEFAULT_COMPRESSION_LEVEL;
	o.block_size = nondet_size(); o.block_restart_interval = nondet_size();
	_Bool in_pooled = nondet_bool();
	tp.pool = (struct threadpool *)malloc(1); o.pool = in_pooled ? &tp : NULL;
	vg_start = nondet_long(); __CPROVER_assume(vg_start >= 0 && vg_start <= ((off_t)1 << 40));
	vg_orig_fd = nondet_int();
	struct mtbl_writer *w = mtbl_writer_init_fd(vg_orig_fd, &o);
	struct block_builder *dbb = &vg_bbs[0], *ibb = &vg_bbs[1];
	VG_P("C09", vg_bb_inits == 2 && vg_fpos == 0, "init creates the two block builders and writes nothing");

	uint8_t in_key[VG_ADDS][VG_KMAX]; size_t in_lk[VG_ADDS], in_lv[VG_ADDS]; uint8_t *in_val = malloc(10);
	uint8_t last[VG_KMAX]; size_t llast = 0; uint64_t accepted = 0, sumk = 0, sumv = 0, blocks = 0;
	for (unsigned a = 0; a < VG_ADDS; a++) {
		in_lk[a] = nondet_size(); in_lv[a] = nondet_size();
		__CPROVER_assume(in_lk[a] <= VG_KMAX && in_lv[a] <= ((size_t)1 << 31));
		for (int i = 0; i < VG_KMAX; i++) in_key[a][i] = nondet_u8();
		if (nondet_bool()) break;                                            /* sessions of any length <= VG_ADDS */
		size_t fpos0 = vg_fpos, est0 = dbb->est; unsigned fin0 = dbb->finishes, iadds0 = ibb->adds;
		_Bool want = accepted == 0 || vg_lexcmp(in_key[a], in_lk[a], last, llast) > 0;
		mtbl_res r = mtbl_writer_add(w, in_key[a], in_lk[a], in_val, in_lv[a]);
		VG_P("C08", (r == mtbl_res_success) == want, "add succeeds iff the key is strictly greater than the last accepted key (first entry: always)");
		if (r != mtbl_res_success) { VG_P("C08", vg_fpos == fpos0 && dbb->finishes == fin0 && ibb->adds == iadds0, "a refused add writes nothing"); continue; }
		accepted++; sumk += in_lk[a]; sumv += in_lv[a]; llast = in_lk[a]; for (int i = 0; i < VG_KMAX; i++) last[i] = in_key[a][i];
		if (dbb->finishes != fin0) {
			blocks++;
			VG_P("C09,C01", dbb->finishes == fin0 + 1 && ibb->adds == iadds0 + 1, "a cut writes one block and makes one index entry");
			VG_P("C09,C20", vg_fpos == fpos0 + vg_vlen(est0) + 4 + est0, "the block occupies varint(length) + 4 + length bytes of the file");
			uint8_t enc[10]; size_t le = mtbl_varint_encode64(enc, (uint64_t)vg_start + fpos0);
			size_t in_k = nondet_size();
			VG_P("C09,C01,C10", ibb->len_val == le && (in_k >= le || ibb->val[in_k] == enc[in_k]), "the index entry's value is the block's start offset in the file (bytes before the table included)");
		} else VG_P("C09", vg_fpos == fpos0 && ibb->adds == iadds0, "nothing is written while the block stays open");
	}
	VG_REACH("session body done");
	size_t fposd = vg_fpos, estd = dbb->est; _Bool emptyd = dbb->empty; unsigned iaddsd = ibb->adds;
	mtbl_writer_destroy(&w);
	VG_REACH("session closed");
	size_t blk = emptyd ? 0 : vg_vlen(estd) + 4 + estd;
	if (!emptyd) {
		uint8_t enc[10]; size_t le = mtbl_varint_encode64(enc, (uint64_t)vg_start + fposd); size_t in_k = nondet_size();
		VG_P("C09,C01,C10", ibb->adds == iaddsd + 1 && ibb->len_val == le && (in_k >= le || ibb->val[in_k] == enc[in_k]), "the last block's index entry carries its start offset in the file");
	}
	VG_P("C10,C09,C01", vg_md_calls == 1 && vg_md.index_block_offset == (uint64_t)vg_start + fposd + blk, "trailer index_block_offset is the file offset where the index block starts (bytes before the table included)");
	VG_P("C10", vg_md.bytes_data_blocks == fposd + blk && vg_md.count_data_blocks == blocks + (emptyd ? 0 : 1), "trailer data block statistics are the truth about the file");
	VG_P("C10", vg_md.count_entries == accepted && vg_md.bytes_keys == sumk && vg_md.bytes_values == sumv, "trailer entry statistics count exactly the accepted entries");
	VG_P("C10", vg_md.bytes_index_block == vg_vlen(vg_fin_len) + 4 + vg_fin_len && vg_fpos == fposd + blk + vg_vlen(vg_fin_len) + 4 + vg_fin_len + MTBL_METADATA_SIZE, "trailer bytes_index_block is what the index block occupies; the trailer is the last 512 bytes");
	VG_P("C10", vg_md.data_block_size == o.block_size && vg_md.compression_algorithm == MTBL_COMPRESSION_NONE && vg_md.file_version == MTBL_FORMAT_V2, "trailer records block size, algorithm, format version");
	VG_P("C18", vg_closed_fds == 1 && vg_bb_destroyed == 2 && vg_dups == 1, "the session releases its descriptor and both builders");
}
