/* C01: src/mtbl_dump.c dump() (real): with key/value prefix and minimum-length options it prints exactly the matching
 * entries, in iteration order.  Reader/iterator are stubs yielding <= 3 symbolic entries; output functions count lines. */
#include "src/mtbl_dump.c"
#include "spec/ghost.h"
#define NE 3
static uint8_t EK[NE * 2], EV[NE * 2]; static size_t ELK[NE], ELV[NE]; static unsigned vg_n, vg_pos;
struct mtbl_reader { int d; }; struct mtbl_iter { int d; }; struct mtbl_source { int d; };
static struct mtbl_reader vg_r; static struct mtbl_iter vg_it; static struct mtbl_source vg_s; static int vg_live;
struct mtbl_reader *mtbl_reader_init(const char *f, const struct mtbl_reader_options *o) { vg_live++; return &vg_r; }
void mtbl_reader_destroy(struct mtbl_reader **r) { if (*r) { vg_live--; *r = NULL; } }
const struct mtbl_source *mtbl_reader_source(struct mtbl_reader *r) { return &vg_s; }
struct mtbl_iter *mtbl_source_iter(const struct mtbl_source *s) { vg_live++; vg_pos = 0; return &vg_it; }
void mtbl_iter_destroy(struct mtbl_iter **it) { if (*it) { vg_live--; *it = NULL; } }
mtbl_res mtbl_iter_next(struct mtbl_iter *it, const uint8_t **k, size_t *lk, const uint8_t **v, size_t *lv)
{ if (vg_pos >= vg_n) return mtbl_res_failure; *k = &EK[2 * vg_pos]; *lk = ELK[vg_pos]; *v = &EV[2 * vg_pos]; *lv = ELV[vg_pos]; vg_pos++; return mtbl_res_success; }
static unsigned vg_printed, vg_lines; static _Bool vg_order_ok = 1; static unsigned vg_last_printed;
int fputc(int c, FILE *f) { if (c == '\n') { unsigned e = vg_pos - 1; if (vg_lines > 0 && e <= vg_last_printed) vg_order_ok = 0; vg_last_printed = e; vg_printed |= 1u << e; vg_lines++; } return c; }
int putc(int c, FILE *f) { return fputc(c, f); }
int fprintf(FILE *f, const char *fmt, ...) { return 0; }
int fputs(const char *s, FILE *f) { return 0; }
size_t fwrite(const void *p, size_t a, size_t b, FILE *f) { return b; }
/* <ctype.h> classification table (glibc): content arbitrary -- which characters are escaped is formatting, not filtering */
static unsigned short vg_ctype[384]; static const unsigned short *vg_ctype_p = vg_ctype + 128;
const unsigned short **__ctype_b_loc(void) { return &vg_ctype_p; }
int bcmp(const void *a, const void *b, size_t n) { for (size_t i = 0; i < 2; i++) if (i < n && ((const uint8_t *)a)[i] != ((const uint8_t *)b)[i]) return 1; return 0; }

void h_dump_filter(void)
{
	vg_n = nondet_u32(); __CPROVER_assume(vg_n <= NE);
	for (unsigned i = 0; i < NE; i++) { ELK[i] = nondet_size(); ELV[i] = nondet_size(); __CPROVER_assume(ELK[i] <= 2 && ELV[i] <= 2); EK[2 * i] = nondet_u8(); EK[2 * i + 1] = nondet_u8(); EV[2 * i] = nondet_u8(); EV[2 * i + 1] = nondet_u8(); }
	uint8_t in_kp[2] = { nondet_u8(), nondet_u8() }, in_vp[2] = { nondet_u8(), nondet_u8() };
	size_t in_kpl = nondet_size(), in_vpl = nondet_size(), in_kmin = nondet_size(), in_vmin = nondet_size(); __CPROVER_assume(in_kpl <= 2 && in_vpl <= 2);
	_Bool in_usek = nondet_bool(), in_usev = nondet_bool(), in_silent = nondet_bool(), in_hex = nondet_bool();
	bool ok = dump("f", in_silent, in_hex, in_usek ? in_kp : NULL, in_kpl, in_usev ? in_vp : NULL, in_vpl, in_kmin, in_vmin);
	VG_REACH("dump returns");
	unsigned want = 0;
	for (unsigned i = 0; i < NE; i++) if (i < vg_n) {
		_Bool m = 1;
		if (in_usek) { if (ELK[i] < in_kpl) m = 0; for (size_t c = 0; c < 2; c++) if (c < in_kpl && c < ELK[i] && EK[2 * i + c] != in_kp[c]) m = 0; }
		if (in_usev) { if (ELV[i] < in_vpl) m = 0; for (size_t c = 0; c < 2; c++) if (c < in_vpl && c < ELV[i] && EV[2 * i + c] != in_vp[c]) m = 0; }
		if (ELK[i] < in_kmin || ELV[i] < in_vmin) m = 0;
		if (m && !in_silent) want |= 1u << i;
	}
	VG_P("C01", ok && vg_printed == want && vg_order_ok, "mtbl_dump prints exactly the entries whose key/value carry the given prefixes and reach the minimum lengths, in iteration order");
	VG_P("C18", vg_live == 0, "dump releases its iterator and reader");
}
