/* C20: _write_all under DFCC.  Real code: /repo/mtbl/writer.c */
#include "mtbl/writer.c"
#include "spec/writer.spec.h"

void h_write_all(void)
{
	int fd; const uint8_t *buf; size_t size;
	_write_all(fd, buf, size);
	VG_REACH("_write_all returns normally");
}
