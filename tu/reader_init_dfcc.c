/* C18: mtbl_reader_init (mtbl/reader.c, real), the by-name open: whatever mtbl_reader_init_fd answers -- a reader or NULL for a
 * file that does not open as a table -- the descriptor opened here is closed again exactly once, and the result is passed on. */
#include "mtbl/reader.c"
#include "spec/ghost.h"
#include <stdarg.h>
struct { unsigned opens, closes; int fd; int closed_fd; } vg_fdc;
struct { unsigned calls; int fd; const struct mtbl_reader_options *opt; struct mtbl_reader *ret; unsigned closes_at_call; } vg_ifd;
int open__cap(const char *path, int flags, ...)
__CPROVER_requires(vg_fdc.opens == 0)
__CPROVER_assigns(__CPROVER_object_whole(&vg_fdc))
__CPROVER_ensures(vg_fdc.opens == 1 && vg_fdc.closes == __CPROVER_old(vg_fdc.closes) && __CPROVER_return_value == vg_fdc.fd && vg_fdc.fd >= -1)
;
int close__cap(int fd)
__CPROVER_requires(1)
__CPROVER_assigns(__CPROVER_object_whole(&vg_fdc))
__CPROVER_ensures(vg_fdc.closes == __CPROVER_old(vg_fdc.closes) + 1 && vg_fdc.closed_fd == fd && vg_fdc.opens == __CPROVER_old(vg_fdc.opens) && vg_fdc.fd == __CPROVER_old(vg_fdc.fd) && __CPROVER_return_value == 0)
;
struct mtbl_reader *mtbl_reader_init_fd__cap(int fd, const struct mtbl_reader_options *opt)
__CPROVER_requires(vg_ifd.calls == 0)
__CPROVER_assigns(__CPROVER_object_whole(&vg_ifd))
__CPROVER_ensures(vg_ifd.calls == 1 && vg_ifd.fd == fd && vg_ifd.opt == opt && __CPROVER_return_value == vg_ifd.ret && vg_ifd.closes_at_call == vg_fdc.closes)
;
struct mtbl_reader *mtbl_reader_init__spec(const char *fname, const struct mtbl_reader_options *opt)
__CPROVER_requires(vg_fdc.opens == 0 && vg_fdc.closes == 0 && vg_ifd.calls == 0)
__CPROVER_assigns(__CPROVER_object_whole(&vg_fdc), __CPROVER_object_whole(&vg_ifd))
__CPROVER_ensures(vg_fdc.opens == 1)
__CPROVER_ensures(vg_fdc.fd < 0 ==> (__CPROVER_return_value == NULL && vg_ifd.calls == 0 && vg_fdc.closes == 0))
/* the descriptor is closed exactly once, after mtbl_reader_init_fd has used it, also when the file is refused */
__CPROVER_ensures(vg_fdc.fd >= 0 ==> (vg_ifd.calls == 1 && vg_ifd.fd == vg_fdc.fd && vg_ifd.opt == opt && vg_ifd.closes_at_call == 0 && vg_fdc.closes == 1 && vg_fdc.closed_fd == vg_fdc.fd && __CPROVER_return_value == vg_ifd.ret))
;
void h_reader_init_dfcc(void)
{
	const char *f; const struct mtbl_reader_options *o;
	struct mtbl_reader *r = mtbl_reader_init(f, o);
	VG_REACH("mtbl_reader_init returns");
}
