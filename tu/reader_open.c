/* C19: mtbl_reader_init / mtbl_reader_init_fd over a fully symbolic file.
 * Real code: reader.c (included), metadata.c, varint.c, fixed.c, block.c, source.c, iter.c (linked).
 * Environment (assumed): fstat yields any st_size; mmap returns an object of exactly st_size bytes with
 * arbitrary content, or MAP_FAILED; open may fail; getenv returns NULL or a short string. */
#include "mtbl/block.c"
#include "mtbl/reader.c"
#include "spec/ghost.h"

static off_t vg_file_size;
static uint8_t *vg_map;

int fstat(int fd, struct stat *buf)
{
	buf->st_size = vg_file_size;
	return 0;
}
static int vg_maps, vg_fds; static int vg_opened_fd;
void *mmap(void *addr, size_t len, int prot, int flags, int fd, off_t off)
{
	VG_P("C19", len == (size_t)vg_file_size && off == 0, "the whole file and nothing more is mapped");
	if (nondet_bool()) return MAP_FAILED;
	vg_map = malloc(len);            /* exactly len bytes, arbitrary content */
	__CPROVER_assume(vg_map != NULL);
	vg_maps++;
	return vg_map;
}
int munmap(void *addr, size_t len) { VG_A(addr == vg_map, "munmap of the mapping"); vg_maps--; return 0; }
int open(const char *path, int flags, ...) { int fd = nondet_int(); __CPROVER_assume(fd >= -1); if (fd >= 0) { vg_fds++; vg_opened_fd = fd; } return fd; }
#ifdef VG_C18_RES
int close(int fd) { VG_P("C18", fd == vg_opened_fd && vg_fds == 1, "only the descriptor the reader opened itself is closed, once"); vg_fds--; return 0; }
#else
int close(int fd) { return 0; }
#endif
char *getenv(const char *name)
{
	if (nondet_bool()) return NULL;
	char *s = malloc(2); __CPROVER_assume(s != NULL);
	s[1] = 0;
	return s;
}
int posix_madvise(void *addr, size_t len, int advice)
{
	VG_P("C19", addr == vg_map && len <= (size_t)vg_file_size, "madvise range lies inside the mapping");
	return 0;
}
uint32_t mtbl_crc32c(const uint8_t *buf, size_t size)
{
	VG_P("C19", __CPROVER_r_ok(buf, size), "checksum input lies inside the file's bytes");
	return nondet_u32();
}
mtbl_res mtbl_decompress(mtbl_compression_type t, const uint8_t *in, const size_t n, uint8_t **out, size_t *outn)
{ VG_A(0, "decompress is not reached while opening"); return mtbl_res_failure; }

void h_reader_open(void)
{
	struct mtbl_reader_options in_opt;
	in_opt.verify_checksums = nondet_bool();
	in_opt.madvise_random = nondet_bool();
	vg_file_size = nondet_long();
	__CPROVER_assume(vg_file_size <= ((off_t)1 << 40));     /* any size incl. negative, up to 1 TiB */
#ifdef VG_C18_RES
	__CPROVER_assume(vg_file_size <= 640);                  /* resource accounting variant: every refusal path (short file, bad magic, index offset / length out of range) is reachable with a trailer plus a few bytes */
#endif
	_Bool in_use_opt = nondet_bool();
	_Bool in_by_name = nondet_bool();
	struct mtbl_reader *r;
	if (in_by_name) r = mtbl_reader_init("x", in_use_opt ? &in_opt : NULL);
	else r = mtbl_reader_init_fd(3, in_use_opt ? &in_opt : NULL);
	VG_REACH("mtbl_reader_init returns");
	if (r != NULL) {
		VG_REACH("mtbl_reader_init returns a reader");
		VG_P("C19", r->data == vg_map && r->len_data == (size_t)vg_file_size, "reader spans exactly the mapping");
		VG_P("C19", r->index != NULL && __CPROVER_r_ok(r->index->data, r->index->size), "index block lies inside the file's bytes");
		VG_P("C19", r->index->size == 0 || r->index->restart_offset <= r->index->size - 4, "index restart array starts inside the index block");
		VG_P("C19", r->m.index_block_offset < r->len_data, "index offset lies inside the file");
	}
#ifdef VG_C18_RES
	/* C18: whatever the outcome, the by-name open leaves no descriptor behind; a refused file leaves no mapping behind; a reader
	 * that was returned releases its mapping when destroyed */
	VG_P("C18", vg_fds == 0, "mtbl_reader_init closes the descriptor it opened on every path (also when the file does not open as a table)");
	if (r == NULL) VG_P("C18", vg_maps == 0, "a file that does not open as a table leaves no mapping behind");
	else { VG_P("C18", vg_maps == 1, "a reader holds exactly one mapping"); mtbl_reader_destroy(&r); VG_P("C18", vg_maps == 0 && r == NULL, "destroying the reader releases the mapping"); }
#endif
}
