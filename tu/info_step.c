/* C10: src/mtbl_info.c print_info (real): every statistic printed is the value of the corresponding mtbl_metadata_* accessor of
 * the file's trailer, under its own label.  Reader and accessors are stubs returning nine distinct symbolic values; printf/puts
 * capture (label, first numeric argument).  Number formatting itself (%' grouping) is libc's. */
#include <stdarg.h>
#include <sys/stat.h>
#define main mtbl_info_main
#include "src/mtbl_info.c"
#undef main
#include "spec/ghost.h"
struct mtbl_reader { int d; }; static struct mtbl_reader vg_r; static unsigned vg_reader_live; static int vg_fd;
static uint64_t F[9]; static off_t vg_size; static mtbl_compression_type vg_alg;
int open(const char *p, int fl, ...) { return vg_fd; }
int fstat(int fd, struct stat *s) { s->st_size = vg_size; return 0; }
struct mtbl_reader *mtbl_reader_init_fd(int fd, const struct mtbl_reader_options *o) { VG_P("C10", fd == vg_fd, "the reader is opened on the named file"); vg_reader_live++; return &vg_r; }
void mtbl_reader_destroy(struct mtbl_reader **r) { if (*r) { vg_reader_live--; *r = NULL; } }
const struct mtbl_metadata *mtbl_reader_metadata(struct mtbl_reader *r) { return (const struct mtbl_metadata *)F; }
uint64_t mtbl_metadata_index_block_offset(const struct mtbl_metadata *m) { return F[0]; }
uint64_t mtbl_metadata_bytes_index_block(const struct mtbl_metadata *m) { return F[1]; }
uint64_t mtbl_metadata_bytes_data_blocks(const struct mtbl_metadata *m) { return F[2]; }
uint64_t mtbl_metadata_data_block_size(const struct mtbl_metadata *m) { return F[3]; }
uint64_t mtbl_metadata_count_data_blocks(const struct mtbl_metadata *m) { return F[4]; }
uint64_t mtbl_metadata_count_entries(const struct mtbl_metadata *m) { return F[5]; }
uint64_t mtbl_metadata_bytes_keys(const struct mtbl_metadata *m) { return F[6]; }
uint64_t mtbl_metadata_bytes_values(const struct mtbl_metadata *m) { return F[7]; }
uint64_t mtbl_metadata_compression_algorithm(const struct mtbl_metadata *m) { return (uint64_t)vg_alg; }
static const char vg_name[] = "algname"; static mtbl_compression_type vg_to_str_arg; static _Bool vg_known;
const char *mtbl_compression_type_to_str(mtbl_compression_type t) { vg_to_str_arg = t; return vg_known ? vg_name : NULL; }
static unsigned vg_seen[9]; static unsigned vg_alg_prints, vg_alg_num_prints; static const char *vg_puts_arg;
static _Bool vg_pre(const char *f, const char *lab) { for (unsigned i = 0; i < 12; i++) { if (!lab[i]) return 1; if (f[i] != lab[i]) return 0; } return 1; }
int printf(const char *fmt, ...)
{
	va_list ap; va_start(ap, fmt);
	static const char *labs[8] = { "index block", "index bytes", "data block b", "data block s", "data block c", "entry count", "key bytes", "value bytes" };
	for (unsigned i = 0; i < 8; i++) if (vg_pre(fmt, labs[i])) { uint64_t v = va_arg(ap, uint64_t); vg_seen[i]++; VG_P("C10", v == F[i], "each statistic line prints the value of its own metadata accessor"); }
	if (fmt[0] == '%' && fmt[1] == 'u') { unsigned v = va_arg(ap, unsigned); vg_alg_num_prints++; VG_P("C10", v == (unsigned)vg_alg, "an algorithm without a name is printed as its number"); }
	va_end(ap); return 0;
}
int puts(const char *s) { vg_alg_prints++; vg_puts_arg = s; return 0; }
int putchar(int c) { return c; }
void h_info_print(void)
{
	for (unsigned i = 0; i < 9; i++) F[i] = nondet_u64();
	vg_size = nondet_long(); __CPROVER_assume(vg_size >= 512);
	vg_alg = nondet_int(); vg_known = nondet_bool(); vg_fd = nondet_int(); __CPROVER_assume(vg_fd >= 0);
	print_info("f");
	VG_REACH("print_info returns");
	for (unsigned i = 0; i < 8; i++) VG_P("C10", vg_seen[i] == 1, "every statistic is printed exactly once");
	VG_P("C10", vg_to_str_arg == vg_alg && (vg_known ? (vg_alg_prints == 1 && vg_puts_arg == vg_name && vg_alg_num_prints == 0) : (vg_alg_prints == 0 && vg_alg_num_prints == 1)), "the compression algorithm printed is the trailer's, by name when it has one");
	VG_P("C18", vg_reader_live == 0, "the reader is released");
}
