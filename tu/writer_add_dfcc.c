/* C08 / C10: mtbl_writer_add under DFCC for keys and values of ANY length: ordering gate, refusal frame, counters,
 * call discipline.  Callees are replaced by contracts (capture style); the frame (assigns) is checked by DFCC. */
#include "mtbl/writer.c"
#include "spec/ghost.h"

size_t vg_k;                                  /* universal index */
size_t vg_memcmp_d;
int vg_cmp_ret; unsigned vg_cmp_calls; const uint8_t *vg_cmp_a, *vg_cmp_b; size_t vg_cmp_la, vg_cmp_lb;
unsigned vg_est_calls, vg_sep_calls, vg_flush_calls, vg_reset_calls, vg_append_calls, vg_bba_calls, vg_seq;
unsigned vg_flush_seq, vg_bba_seq, vg_sep_seq;
size_t vg_est; struct block_builder *vg_bba_b; const uint8_t *vg_bba_key, *vg_bba_val; size_t vg_bba_lk, vg_bba_lv;
const uint8_t *vg_app_src; size_t vg_app_n;

int bytes_compare__cap(const uint8_t *a, size_t la, const uint8_t *b, size_t lb)
__CPROVER_requires(1)
__CPROVER_assigns(vg_cmp_ret, vg_cmp_calls, vg_cmp_a, vg_cmp_b, vg_cmp_la, vg_cmp_lb)
__CPROVER_ensures(__CPROVER_return_value == vg_cmp_ret && vg_cmp_calls == __CPROVER_old(vg_cmp_calls) + 1)
__CPROVER_ensures(vg_cmp_a == a && vg_cmp_b == b && vg_cmp_la == la && vg_cmp_lb == lb)
;
size_t block_builder_current_size_estimate__cap(struct block_builder *b)
__CPROVER_requires(1) __CPROVER_assigns(vg_est_calls)
__CPROVER_ensures(__CPROVER_return_value == vg_est && vg_est_calls == __CPROVER_old(vg_est_calls) + 1)
;
void bytes_shortest_separator__cap(ubuf *start, const uint8_t *limit, size_t len_limit)
__CPROVER_requires(1) __CPROVER_assigns(vg_sep_calls, vg_seq, vg_sep_seq)
__CPROVER_ensures(vg_sep_calls == __CPROVER_old(vg_sep_calls) + 1 && vg_seq == __CPROVER_old(vg_seq) + 1 && vg_sep_seq == vg_seq)
;
void _mtbl_writer_flush__cap(struct mtbl_writer *w)
__CPROVER_requires(1) __CPROVER_assigns(vg_flush_calls, vg_seq, vg_flush_seq)
__CPROVER_ensures(vg_flush_calls == __CPROVER_old(vg_flush_calls) + 1 && vg_seq == __CPROVER_old(vg_seq) + 1 && vg_flush_seq == vg_seq)
;
void ubuf_reset__cap(ubuf *u)
__CPROVER_requires(1) __CPROVER_assigns(u->_n, vg_reset_calls)
__CPROVER_ensures(u->_n == 0 && vg_reset_calls == __CPROVER_old(vg_reset_calls) + 1)
;
void ubuf_append__cap(ubuf *u, uint8_t const *elems, size_t n)
__CPROVER_requires(1) __CPROVER_assigns(u->_n, vg_append_calls, vg_app_src, vg_app_n)
__CPROVER_ensures(u->_n == __CPROVER_old(u->_n) + n && vg_append_calls == __CPROVER_old(vg_append_calls) + 1 && vg_app_src == elems && vg_app_n == n)
;
void block_builder_add__cap(struct block_builder *b, const uint8_t *key, size_t lk, const uint8_t *val, size_t lv)
__CPROVER_requires(1) __CPROVER_assigns(vg_bba_calls, vg_bba_b, vg_bba_key, vg_bba_val, vg_bba_lk, vg_bba_lv, vg_seq, vg_bba_seq)
__CPROVER_ensures(vg_bba_calls == __CPROVER_old(vg_bba_calls) + 1 && vg_bba_b == b && vg_bba_key == key && vg_bba_lk == lk && vg_bba_val == val && vg_bba_lv == lv)
__CPROVER_ensures(vg_seq == __CPROVER_old(vg_seq) + 1 && vg_bba_seq == vg_seq)
;

mtbl_res mtbl_writer_add__spec(struct mtbl_writer *w, const uint8_t *key, size_t len_key, const uint8_t *val, size_t len_val)
__CPROVER_requires(__CPROVER_is_fresh(w, sizeof(*w)) && __CPROVER_is_fresh(w->last_key, sizeof(ubuf)))
__CPROVER_requires(!w->closed)
__CPROVER_requires(w->m.count_entries < ((uint64_t)1 << 62) && w->m.bytes_keys < ((uint64_t)1 << 62) && w->m.bytes_values < ((uint64_t)1 << 62))
__CPROVER_requires(len_key < ((size_t)1 << 60) && len_val < ((size_t)1 << 60) && vg_est < ((size_t)1 << 60) && w->last_key->_n < ((size_t)1 << 60))
__CPROVER_requires(vg_cmp_calls == 0 && vg_est_calls == 0 && vg_sep_calls == 0 && vg_flush_calls == 0 && vg_reset_calls == 0 && vg_append_calls == 0 && vg_bba_calls == 0 && vg_seq == 0)
__CPROVER_assigns(w->m.count_entries, w->m.bytes_keys, w->m.bytes_values, w->last_key->_n,
                  vg_cmp_ret, vg_cmp_calls, vg_cmp_a, vg_cmp_b, vg_cmp_la, vg_cmp_lb, vg_est_calls, vg_sep_calls, vg_flush_calls, vg_reset_calls, vg_append_calls, vg_app_src, vg_app_n,
                  vg_bba_calls, vg_bba_b, vg_bba_key, vg_bba_val, vg_bba_lk, vg_bba_lv, vg_seq, vg_flush_seq, vg_bba_seq, vg_sep_seq)
/* the gate */
/* entries whose lengths the format's 32-bit entry header cannot hold are refused before anything else (every accepted entry must
 * read back, C01); for all other entries the gate is exactly the ordering rule of C08 */
#define VG_FITS (len_key <= UINT32_MAX && len_val <= UINT32_MAX)
__CPROVER_ensures(__CPROVER_return_value == mtbl_res_success ==> VG_FITS)
__CPROVER_ensures(vg_cmp_calls == ((VG_FITS && __CPROVER_old(w->m.count_entries) > 0) ? 1 : 0))
__CPROVER_ensures(vg_cmp_calls == 1 ==> (vg_cmp_a == key && vg_cmp_la == len_key && vg_cmp_b == w->last_key->_v && vg_cmp_lb == __CPROVER_old(w->last_key->_n)))
__CPROVER_ensures(VG_FITS ==> ((__CPROVER_return_value == mtbl_res_success) == (__CPROVER_old(w->m.count_entries) == 0 || vg_cmp_ret > 0)))
/* a refused add changes nothing */
__CPROVER_ensures(__CPROVER_return_value != mtbl_res_success ==> (w->m.count_entries == __CPROVER_old(w->m.count_entries) && w->m.bytes_keys == __CPROVER_old(w->m.bytes_keys) && w->m.bytes_values == __CPROVER_old(w->m.bytes_values)
                  && w->last_key->_n == __CPROVER_old(w->last_key->_n) && vg_est_calls == 0 && vg_sep_calls == 0 && vg_flush_calls == 0 && vg_reset_calls == 0 && vg_append_calls == 0 && vg_bba_calls == 0))
/* an accepted add */
__CPROVER_ensures(__CPROVER_return_value == mtbl_res_success ==> (w->m.count_entries == __CPROVER_old(w->m.count_entries) + 1 && w->m.bytes_keys == __CPROVER_old(w->m.bytes_keys) + len_key && w->m.bytes_values == __CPROVER_old(w->m.bytes_values) + len_val))
__CPROVER_ensures(__CPROVER_return_value == mtbl_res_success ==> (vg_bba_calls == 1 && vg_bba_b == w->data && vg_bba_key == key && vg_bba_lk == len_key && vg_bba_val == val && vg_bba_lv == len_val))
__CPROVER_ensures(__CPROVER_return_value == mtbl_res_success ==> (vg_reset_calls == 1 && vg_append_calls == 1 && vg_app_src == key && vg_app_n == len_key && w->last_key->_n == len_key))
/* block cut: only when the estimate plus the 15-byte allowance reaches the block size (the other half of the rule, "no multi-entry block
 * exceeds the block size", needs the builder's contract and is an obligation of wr_add_step); separator first, flush second, the new entry last */
__CPROVER_ensures(__CPROVER_return_value == mtbl_res_success ==> (vg_flush_calls <= 1 && vg_sep_calls == vg_flush_calls))
__CPROVER_ensures((__CPROVER_return_value == mtbl_res_success && vg_flush_calls == 1) ==> (vg_est + 15 + len_key + len_val >= w->opt.block_size))
__CPROVER_ensures((__CPROVER_return_value == mtbl_res_success && vg_flush_calls == 1) ==> (vg_sep_seq < vg_flush_seq && vg_flush_seq < vg_bba_seq))
;
void h_writer_add_dfcc(void)
{
	struct mtbl_writer *w; const uint8_t *k, *v; size_t lk, lv;
	mtbl_res r = mtbl_writer_add(w, k, lk, v, lv);
	VG_REACH("mtbl_writer_add returns");
}
