/* C15: mtbl/compression.c (real) against assumed contracts of the codec libraries (zlib, lz4, zstd, snappy).
 * mtbl's own obligations are sizing, framing, error handling, never aborting; the codecs' content is third party.
 * Codec model: compressing n bytes yields a blob of a nondeterministic true size c within the documented bound;
 * the call succeeds iff the destination capacity is >= c; decompressing exactly that blob (same pointer, same length)
 * into a buffer of >= n bytes yields n bytes, anything else is an error. */
#include "mtbl/compression.c"
#include "spec/ghost.h"

/* ---------- allocation accounting (content is irrelevant in this model) ---------- */
static long vg_allocs;
void *malloc(size_t n) { vg_allocs++; return __CPROVER_allocate(n, 0); }
void *calloc(size_t a, size_t b) { vg_allocs++; return __CPROVER_allocate(a * b, 1); }
void free(void *p) { if (p) { vg_allocs--; __CPROVER_deallocate(p); } }
void *realloc(void *p, size_t n) { void *q = __CPROVER_allocate(n, 0); if (p) __CPROVER_deallocate(p); else vg_allocs++; return q; }

/* ---------- ghost blob ---------- */
static const void *vg_blob; static size_t vg_blob_len, vg_orig_len; static int vg_blob_alg;   /* 1 snappy 2 zlib 3 lz4 5 zstd */
static const void *vg_in; static size_t vg_in_len;
static size_t vg_true_size(size_t n, size_t bound)
{
	size_t c = nondet_size();
	__CPROVER_assume(c >= 1 && c <= bound && c >= n / 1032);      /* no codec here beats deflate's 1032:1 */
	return c;
}
#define VG_SRC_OK(src, n) VG_P("C15", (const void *)(src) == vg_in && (size_t)(n) == vg_in_len, "the codec is given exactly the caller's input buffer")

/* ---------- LZ4 ---------- */
int LZ4_compressBound(int n) { return (unsigned)n > 0x7E000000u ? 0 : n + n / 255 + 16; }
static int vg_lz4(const char *src, char *dst, int n, int cap)
{
	VG_SRC_OK(src, n);
	VG_P("C15", cap >= 0 && __CPROVER_w_ok(dst, (size_t)cap), "the LZ4 destination capacity lies inside the allocated buffer");
	int bound = LZ4_compressBound(n); if (bound == 0) return 0;
	size_t c = vg_true_size((size_t)n, (size_t)bound);
	if ((size_t)cap < c) return 0;
	vg_blob = dst; vg_blob_len = c; vg_orig_len = (size_t)n; vg_blob_alg = 3;
	return (int)c;
}
int LZ4_compress_default(const char *src, char *dst, int n, int cap) { return vg_lz4(src, dst, n, cap); }
int LZ4_compress_HC(const char *src, char *dst, int n, int cap, int level) { return vg_lz4(src, dst, n, cap); }
int LZ4_decompress_safe(const char *src, char *dst, int n, int cap)
{
	VG_P("C15", cap >= 0 && __CPROVER_w_ok(dst, (size_t)cap), "the LZ4 output capacity lies inside the allocated buffer");
	if (src == vg_blob && (size_t)n == vg_blob_len && vg_blob_alg == 3 && (size_t)cap >= vg_orig_len) return (int)vg_orig_len;
	return -1;
}
/* ---------- zstd ---------- */
size_t ZSTD_compressBound(size_t n) { return n + (n >> 8) + 64; }
unsigned ZSTD_isError(size_t code) { return code > (size_t)-120; }
int ZSTD_minCLevel(void) { return -131072; }
int ZSTD_maxCLevel(void) { return 22; }
size_t ZSTD_compress(void *dst, size_t cap, const void *src, size_t n, int level)
{
	VG_SRC_OK(src, n);
	VG_P("C15", level >= ZSTD_minCLevel() && level <= ZSTD_maxCLevel(), "the zstd level is clamped into the library's range");
	VG_P("C15", __CPROVER_w_ok(dst, cap), "the zstd destination capacity lies inside the allocated buffer");
	size_t c = vg_true_size(n, ZSTD_compressBound(n));
	if (cap < c) return (size_t)-70;
	vg_blob = dst; vg_blob_len = c; vg_orig_len = n; vg_blob_alg = 5;
	return c;
}
unsigned long long ZSTD_getFrameContentSize(const void *src, size_t n)
{
	if (src == vg_blob && n == vg_blob_len && vg_blob_alg == 5) return vg_orig_len;
	return nondet_bool() ? ZSTD_CONTENTSIZE_ERROR : ZSTD_CONTENTSIZE_UNKNOWN;
}
size_t ZSTD_decompress(void *dst, size_t cap, const void *src, size_t n)
{
	VG_P("C15", __CPROVER_w_ok(dst, cap), "the zstd output capacity lies inside the allocated buffer");
	if (src == vg_blob && n == vg_blob_len && vg_blob_alg == 5 && cap >= vg_orig_len) return vg_orig_len;
	return (size_t)-20;
}
/* ---------- snappy ---------- */
size_t snappy_max_compressed_length(size_t n) { return 32 + n + n / 6; }
snappy_status snappy_compress(const char *src, size_t n, char *dst, size_t *dstlen)
{
	VG_SRC_OK(src, n);
	VG_P("C15", __CPROVER_w_ok(dst, *dstlen), "the snappy destination capacity lies inside the allocated buffer");
	size_t c = vg_true_size(n, snappy_max_compressed_length(n));
	if (*dstlen < c) return SNAPPY_BUFFER_TOO_SMALL;
	*dstlen = c; vg_blob = dst; vg_blob_len = c; vg_orig_len = n; vg_blob_alg = 1;
	return SNAPPY_OK;
}
snappy_status snappy_uncompressed_length(const char *src, size_t n, size_t *res)
{ if (src == vg_blob && n == vg_blob_len && vg_blob_alg == 1) { *res = vg_orig_len; return SNAPPY_OK; } return SNAPPY_INVALID_INPUT; }
snappy_status snappy_uncompress(const char *src, size_t n, char *dst, size_t *dstlen)
{
	VG_P("C15", __CPROVER_w_ok(dst, *dstlen), "the snappy output capacity lies inside the allocated buffer");
	if (src == vg_blob && n == vg_blob_len && vg_blob_alg == 1 && *dstlen >= vg_orig_len) { *dstlen = vg_orig_len; return SNAPPY_OK; }
	return SNAPPY_INVALID_INPUT;
}
/* ---------- zlib ---------- */
static int vg_z_inited; static size_t vg_z_produced;
int deflateInit_(z_streamp s, int level, const char *ver, int sz) { if (level < -1 || level > 9) return Z_STREAM_ERROR; vg_z_inited++; s->total_out = 0; s->total_in = 0; return Z_OK; }
uLong deflateBound(z_streamp s, uLong n) { return n + (n >> 12) + (n >> 14) + (n >> 25) + 13; }
int deflate(z_streamp s, int flush)
{
	VG_P("C15", flush == Z_FINISH, "single-shot deflate");
	VG_P("C15", (const void *)s->next_in == vg_in && (size_t)s->avail_in == vg_in_len, "zlib is given the caller's whole input (avail_in is 32 bits wide)");
	VG_P("C15", __CPROVER_w_ok(s->next_out, s->avail_out), "the zlib destination capacity lies inside the allocated buffer");
	size_t n = s->avail_in;
	size_t c = vg_true_size(n, deflateBound(s, n)); __CPROVER_assume(c >= 8);      /* header + trailer + one block */
	if (s->avail_out < c) { s->total_out += s->avail_out; s->avail_out = 0; return nondet_bool() ? Z_OK : Z_BUF_ERROR; }
	vg_blob = s->next_out; vg_blob_len = c; vg_orig_len = n; vg_blob_alg = 2;
	s->avail_in = 0; s->total_in += n; s->total_out += c; s->avail_out -= c;
	return Z_STREAM_END;
}
int deflateEnd(z_streamp s) { vg_z_inited--; return Z_OK; }
int inflateInit_(z_streamp s, const char *ver, int sz) { vg_z_inited++; s->total_out = 0; vg_z_produced = 0; return Z_OK; }
int inflate(z_streamp s, int flush)
{
	VG_P("C15", __CPROVER_w_ok(s->next_out, s->avail_out), "the zlib output window lies inside the (re)allocated buffer");
	if (!((const void *)s->next_in == vg_blob && vg_blob_alg == 2)) return Z_DATA_ERROR;     /* not our stream */
	size_t left = vg_orig_len - vg_z_produced;
	size_t k = left < s->avail_out ? left : s->avail_out;
	vg_z_produced += k; s->total_out += k; s->avail_out -= k; s->next_out += k;
	return vg_z_produced == vg_orig_len ? Z_STREAM_END : Z_BUF_ERROR;
}
int inflateEnd(z_streamp s) { vg_z_inited--; return Z_OK; }
/* POSIX strcasecmp, by its definition */
int strcasecmp(const char *a, const char *b)
{
	for (size_t i = 0; i < 16; i++) {
		unsigned char x = a[i], y = b[i];
		if (x >= 'A' && x <= 'Z') x += 32; if (y >= 'A' && y <= 'Z') y += 32;
		if (x != y) return (int)x - (int)y;
		if (x == 0) return 0;
	}
	return 0;
}

/* ======================================================================= compress -> decompress, any size, any level */
void h_c15_roundtrip(void)
{
	mtbl_compression_type in_alg = nondet_int();
	__CPROVER_assume(in_alg >= MTBL_COMPRESSION_NONE && in_alg <= MTBL_COMPRESSION_ZSTD + 1);
	size_t in_size = nondet_size(); __CPROVER_assume(in_size <= ((size_t)1 << 33));
	int in_level = nondet_int(); _Bool in_default = nondet_bool();
	uint8_t *input = __CPROVER_allocate(in_size, 0);
	vg_in = input; vg_in_len = in_size;
	uint8_t *out = NULL; size_t outsz = 0;
	mtbl_res res = in_default ? mtbl_compress(in_alg, input, in_size, &out, &outsz) : mtbl_compress_level(in_alg, in_level, input, in_size, &out, &outsz);
	VG_REACH("compress returns");
	if (in_alg == MTBL_COMPRESSION_NONE || in_alg > MTBL_COMPRESSION_ZSTD) VG_P("C15", res == mtbl_res_failure, "NONE and unknown algorithms are refused");
	if (res != mtbl_res_success) { VG_P("C15,C18", vg_allocs == 0, "a failed compress leaks nothing"); return; }
	VG_REACH("compress succeeds");
	VG_P("C15,C18", vg_allocs == 1 && out != NULL, "a successful compress hands over exactly one buffer");
	_Bool lz = (in_alg == MTBL_COMPRESSION_LZ4 || in_alg == MTBL_COMPRESSION_LZ4HC);
	VG_P("C15", outsz == vg_blob_len + (lz ? 4 : 0) && (const uint8_t *)vg_blob == out + (lz ? 4 : 0), "the output is exactly the codec's blob (after the 4-byte length prefix for LZ4)");
	if (lz) VG_P("C15", mtbl_fixed_decode32(out) == in_size, "the LZ4 prefix holds the uncompressed length, little-endian");
	uint8_t *back = NULL; size_t backsz = 0;
	mtbl_res dres = mtbl_decompress(in_alg, out, outsz, &back, &backsz);
	VG_P("C15", dres == mtbl_res_success && backsz == in_size, "mtbl_decompress turns the output back into a buffer of the input's length");
	if (dres == mtbl_res_success) { VG_P("C15,C18", vg_allocs == 2 && vg_z_inited == 0, "decompress hands over exactly one buffer and ends its zlib stream"); }
}

/* ======================================================================= names */
void h_c15_names(void)
{
	static const char *names[6] = { "none", "snappy", "zlib", "lz4", "lz4hc", "zstd" };
	unsigned in_t = nondet_u32(); __CPROVER_assume(in_t <= 7);
	const char *s = mtbl_compression_type_to_str(in_t);
	VG_REACH("to_str returns");
	VG_P("C15", (s != NULL) == (in_t <= 5), "exactly the six algorithms have names");
	if (s) { mtbl_compression_type t = 99; VG_P("C15", mtbl_compression_type_from_str(s, &t) == mtbl_res_success && t == in_t, "names round-trip through to_str/from_str"); }
	char in_s[8]; for (int i = 0; i < 7; i++) in_s[i] = nondet_u8(); in_s[7] = 0;
	mtbl_compression_type t2 = 99;
	mtbl_res r = mtbl_compression_type_from_str(in_s, &t2);
	int match = -1;
	for (int n = 0; n < 6; n++) { _Bool eq = 1; for (int i = 0; i < 8; i++) { unsigned char x = in_s[i], y = names[n][i]; if (x >= 'A' && x <= 'Z') x += 32; if (x != y) { eq = 0; break; } if (y == 0) break; } if (eq) match = n; }
	VG_P("C15", (r == mtbl_res_success) == (match >= 0) && (match < 0 || t2 == (mtbl_compression_type)match), "from_str accepts exactly the six names (case-insensitively) and refuses everything else");
}
