/* C06: mtbl_sorter_add (mtbl/sorter.c, real) under DFCC for keys and values of ANY length the entry header can hold:
 * refused once iteration has begun (and then nothing changes); otherwise exactly one entry holding the caller's key and value
 * is appended to the batch, its bytes are accounted, and a spill happens in this very call as soon as the buffered entries
 * reach the memory limit -- the call's result is then the spill's result. */
#include "mtbl/sorter.c"
#include "spec/ghost.h"

struct { unsigned calls; entry_vec *vec; struct entry *ent; size_t n; uint32_t lk_at_call, lv_at_call; } vg_app;
struct { unsigned calls; void *dst0, *dst1; const void *src0, *src1; size_t n0, n1; } vg_mc;
struct { unsigned calls; struct mtbl_sorter *s; mtbl_res ret; size_t bytes_at_call; unsigned app_calls_at_call; } vg_fl;
struct { unsigned calls; size_t n; void *ret; } vg_ma;
struct entry vg_entry_obj;      /* the header of the entry my_malloc hands out (its data bytes are only touched by the replaced memcpy) */

void *my_malloc__cap(size_t n)
__CPROVER_requires(vg_ma.calls == 0)
__CPROVER_assigns(__CPROVER_object_whole(&vg_ma))
__CPROVER_ensures(vg_ma.calls == 1 && vg_ma.n == n && vg_ma.ret == __CPROVER_return_value && __CPROVER_return_value == (void *)&vg_entry_obj)
;
void *memcpy__cap(void *dst, const void *src, size_t n)
__CPROVER_requires(vg_mc.calls < 2)
__CPROVER_assigns(__CPROVER_object_whole(&vg_mc))
__CPROVER_ensures(vg_mc.calls == __CPROVER_old(vg_mc.calls) + 1)
__CPROVER_ensures(vg_mc.dst0 == (__CPROVER_old(vg_mc.calls) == 0 ? dst : __CPROVER_old(vg_mc.dst0)) && vg_mc.src0 == (__CPROVER_old(vg_mc.calls) == 0 ? src : __CPROVER_old(vg_mc.src0)) && vg_mc.n0 == (__CPROVER_old(vg_mc.calls) == 0 ? n : __CPROVER_old(vg_mc.n0)))
__CPROVER_ensures(vg_mc.dst1 == (__CPROVER_old(vg_mc.calls) == 1 ? dst : __CPROVER_old(vg_mc.dst1)) && vg_mc.src1 == (__CPROVER_old(vg_mc.calls) == 1 ? src : __CPROVER_old(vg_mc.src1)) && vg_mc.n1 == (__CPROVER_old(vg_mc.calls) == 1 ? n : __CPROVER_old(vg_mc.n1)))
;
void entry_vec_append__cap(entry_vec *vec, struct entry *const *elems, size_t n)
__CPROVER_requires(vg_app.calls == 0 && n == 1)
__CPROVER_assigns(vec->_n, __CPROVER_object_whole(&vg_app))
__CPROVER_ensures(vec->_n == __CPROVER_old(vec->_n) + n && vg_app.calls == 1 && vg_app.vec == vec && vg_app.ent == elems[0] && vg_app.n == n)
__CPROVER_ensures(vg_app.lk_at_call == elems[0]->len_key && vg_app.lv_at_call == elems[0]->len_val)
;
mtbl_res _mtbl_sorter_flush__cap(struct mtbl_sorter *s)
__CPROVER_requires(vg_fl.calls == 0)
__CPROVER_assigns(__CPROVER_object_whole(&vg_fl))
__CPROVER_ensures(vg_fl.calls == 1 && vg_fl.s == s && __CPROVER_return_value == vg_fl.ret && vg_fl.bytes_at_call == s->entry_bytes && vg_fl.app_calls_at_call == vg_app.calls)
;
#define VG_EB (sizeof(struct entry) + len_key + len_val)
mtbl_res mtbl_sorter_add__spec(struct mtbl_sorter *s, const uint8_t *key, size_t len_key, const uint8_t *val, size_t len_val)
__CPROVER_requires(__CPROVER_is_fresh(s, sizeof(*s)) && __CPROVER_is_fresh(s->vec, sizeof(entry_vec)))
__CPROVER_requires(len_key <= UINT_MAX && len_val <= UINT_MAX && s->entry_bytes <= ((size_t)1 << 60) && s->vec->_n <= ((size_t)1 << 50))
__CPROVER_requires(vg_app.calls == 0 && vg_mc.calls == 0 && vg_fl.calls == 0 && vg_ma.calls == 0)
__CPROVER_assigns(s->entry_bytes, s->vec->_n, __CPROVER_object_whole(&vg_app), __CPROVER_object_whole(&vg_mc), __CPROVER_object_whole(&vg_fl), __CPROVER_object_whole(&vg_ma), vg_entry_obj.len_key, vg_entry_obj.len_val)
/* once iteration has begun the add is refused and nothing happens */
__CPROVER_ensures(__CPROVER_old(s->iterating) ==> (__CPROVER_return_value == mtbl_res_failure && vg_app.calls == 0 && vg_fl.calls == 0 && vg_ma.calls == 0 && s->entry_bytes == __CPROVER_old(s->entry_bytes) && s->vec->_n == __CPROVER_old(s->vec->_n)))
/* otherwise: one entry with the caller's lengths, key bytes first, value bytes right behind them */
__CPROVER_ensures(!__CPROVER_old(s->iterating) ==> (vg_ma.calls == 1 && vg_ma.n == VG_EB && vg_app.calls == 1 && vg_app.vec == s->vec && vg_app.ent == vg_ma.ret && vg_app.lk_at_call == len_key && vg_app.lv_at_call == len_val && s->vec->_n == __CPROVER_old(s->vec->_n) + 1))
__CPROVER_ensures(!__CPROVER_old(s->iterating) ==> (vg_mc.calls == 2 && vg_mc.dst0 == (void *)((struct entry *)vg_ma.ret)->data && vg_mc.src0 == key && vg_mc.n0 == len_key
                  && vg_mc.dst1 == (void *)(((struct entry *)vg_ma.ret)->data + len_key) && vg_mc.src1 == val && vg_mc.n1 == len_val))
/* accounting and the spill rule */
__CPROVER_ensures(!__CPROVER_old(s->iterating) ==> s->entry_bytes == __CPROVER_old(s->entry_bytes) + VG_EB)
__CPROVER_ensures(!__CPROVER_old(s->iterating) ==> (vg_fl.calls == ((s->entry_bytes + s->vec->_n * sizeof(struct entry *) >= s->opt.max_memory) ? 1 : 0)))
__CPROVER_ensures((!__CPROVER_old(s->iterating) && vg_fl.calls == 1) ==> (vg_fl.s == s && vg_fl.app_calls_at_call == 1 && vg_fl.bytes_at_call == s->entry_bytes && __CPROVER_return_value == vg_fl.ret))
__CPROVER_ensures((!__CPROVER_old(s->iterating) && vg_fl.calls == 0) ==> __CPROVER_return_value == mtbl_res_success)
;
void h_sorter_add_dfcc(void)
{
	struct mtbl_sorter *s; const uint8_t *k, *v; size_t lk, lv;
	mtbl_res r = mtbl_sorter_add(s, k, lk, v, lv);
	VG_REACH("mtbl_sorter_add returns");
}
