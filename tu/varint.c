/* C16: varint + fixed codecs.  Real code: /repo/mtbl/varint.c, /repo/mtbl/fixed.c (included verbatim). */
#include "mtbl/varint.c"
#include "mtbl/fixed.c"
#include "spec/ghost.h"

/* spec: standard little-endian base-128 length */
static unsigned spec_len64(uint64_t v)
{
	unsigned n = 1;
	if (v >= (1ULL << 7)) n = 2;
	if (v >= (1ULL << 14)) n = 3;
	if (v >= (1ULL << 21)) n = 4;
	if (v >= (1ULL << 28)) n = 5;
	if (v >= (1ULL << 35)) n = 6;
	if (v >= (1ULL << 42)) n = 7;
	if (v >= (1ULL << 49)) n = 8;
	if (v >= (1ULL << 56)) n = 9;
	if (v >= (1ULL << 63)) n = 10;
	return n;
}

/* byte k of the standard encoding of v with n bytes */
static uint8_t spec_byte(uint64_t v, unsigned n, unsigned k)
{
	return (uint8_t)(((v >> (7 * k)) & 0x7f) | (k + 1 < n ? 0x80 : 0));
}

void h_varint32(void)
{
	uint32_t in_v = nondet_u32();
	uint8_t buf[16];
	unsigned in_k = nondet_u32();           /* universal index */
	for (unsigned i = 0; i < 16; i++) buf[i] = 0xAA ^ i;
	size_t n = mtbl_varint_encode32(buf + 3, in_v);
	VG_REACH("varint32 encode reachable");
	VG_P("C16", n == spec_len64(in_v), "encode32 length is the standard base-128 length");
	VG_P("C16", n == mtbl_varint_length(in_v), "encode32 count equals mtbl_varint_length");
	VG_P("C16", n == mtbl_varint_length_packed(buf + 3, n), "encode32 count equals mtbl_varint_length_packed");
	VG_P("C16", n == mtbl_varint_length_packed(buf + 3, 13), "length_packed ignores bytes after the terminator");
	if (in_k < n)
		VG_P("C16", buf[3 + in_k] == spec_byte(in_v, n, in_k), "encode32 byte k is standard little-endian base-128");
	if (in_k < 16 && (in_k < 3 || in_k >= 3 + n))
		VG_P("C16", buf[in_k] == (uint8_t)(0xAA ^ in_k), "encode32 writes nothing outside its n bytes");
	if (in_k < n)
		VG_P("C16", mtbl_varint_length_packed(buf + 3, in_k) == 0, "length_packed of a truncated encoding is 0");
	uint32_t out = ~in_v;
	size_t m = mtbl_varint_decode32(buf + 3, &out);
	VG_P("C16", m == n, "decode32 consumes the encoder's byte count");
	VG_P("C16", out == in_v, "decode32(encode32(v)) == v");
	uint64_t out64 = 1;
	size_t m64 = mtbl_varint_decode64(buf + 3, &out64);
	VG_P("C16", m64 == n && out64 == in_v, "decode64 reads a 32-bit encoding identically");
}

void h_varint64(void)
{
	uint64_t in_v = nondet_u64();
	uint8_t buf[20];
	unsigned in_k = nondet_u32();
	for (unsigned i = 0; i < 20; i++) buf[i] = 0x55 ^ i;
	size_t n = mtbl_varint_encode64(buf + 5, in_v);
	VG_REACH("varint64 encode reachable");
	VG_P("C16", n == spec_len64(in_v), "encode64 length is the standard base-128 length");
	VG_P("C16", n == mtbl_varint_length(in_v), "encode64 count equals mtbl_varint_length");
	VG_P("C16", n == mtbl_varint_length_packed(buf + 5, n), "encode64 count equals mtbl_varint_length_packed");
	if (in_k < n)
		VG_P("C16", buf[5 + in_k] == spec_byte(in_v, n, in_k), "encode64 byte k is standard little-endian base-128");
	if (in_k < 20 && (in_k < 5 || in_k >= 5 + n))
		VG_P("C16", buf[in_k] == (uint8_t)(0x55 ^ in_k), "encode64 writes nothing outside its n bytes");
	if (in_k < n)
		VG_P("C16", mtbl_varint_length_packed(buf + 5, in_k) == 0, "length_packed of a truncated encoding is 0");
	uint64_t out = ~in_v;
	size_t m = mtbl_varint_decode64(buf + 5, &out);
	VG_P("C16", m == n, "decode64 consumes the encoder's byte count");
	VG_P("C16", out == in_v, "decode64(encode64(v)) == v");
	if (in_v <= UINT32_MAX) {
		uint32_t o32 = 7;
		size_t m32 = mtbl_varint_decode32(buf + 5, &o32);
		VG_P("C16", m32 == n && o32 == (uint32_t)in_v, "decode32 of a 64-bit-encoded 32-bit value agrees");
	}
}

/* decoder on arbitrary bytes: value = sum of 7-bit groups, count = index of terminator + 1, 0 when none within limit */
void h_varint_decode_any(void)
{
	uint8_t in_b[12];
	for (unsigned i = 0; i < 12; i++) in_b[i] = nondet_u8();
	unsigned t = 0;
	while (t < 12 && (in_b[t] & 0x80)) t++;
	VG_REACH("decode_any reachable");
	uint64_t v = 3;
	size_t m = mtbl_varint_decode64(in_b, &v);
	if (t < 10) {
		uint64_t want = 0;
		for (unsigned k = 0; k <= t; k++) want |= (uint64_t)(in_b[k] & 0x7f) << (7 * k);
		VG_P("C16", m == t + 1 && v == want, "decode64 on arbitrary bytes: count and base-128 value");
	} else {
		VG_P("C16", m == 0 && v == 0, "decode64 rejects an over-long encoding (no terminator within 10 bytes)");
	}
	uint32_t v32 = 3;
	size_t m32 = mtbl_varint_decode32(in_b, &v32);
	if (t < 5) {
		uint64_t want = 0;
		for (unsigned k = 0; k <= t; k++) want |= (uint64_t)(in_b[k] & 0x7f) << (7 * k);
		VG_P("C16", m32 == t + 1 && v32 == (uint32_t)want, "decode32 on arbitrary bytes: count and value");
	} else {
		VG_P("C16", m32 == 0 && v32 == 0, "decode32 rejects an over-long encoding (no terminator within 5 bytes)");
	}
	unsigned in_len = nondet_u32();
	__CPROVER_assume(in_len <= 12);
	unsigned lp = mtbl_varint_length_packed(in_b, in_len);
	VG_P("C16", lp == (t < in_len ? t + 1 : 0), "length_packed: index of first terminator + 1, or 0 if none within len");
}

void h_fixed(void)
{
	uint8_t buf[24];
	unsigned in_off = nondet_u32();
	unsigned in_k = nondet_u32();
	uint32_t in_v32 = nondet_u32();
	uint64_t in_v64 = nondet_u64();
	__CPROVER_assume(in_off < 8);
	for (unsigned i = 0; i < 24; i++) buf[i] = 0xC3 ^ i;
	VG_REACH("fixed reachable");
	size_t n = mtbl_fixed_encode32(buf + 4 + in_off, in_v32);
	VG_P("C16", n == 4, "fixed_encode32 returns 4");
	if (in_k < 4)
		VG_P("C16", buf[4 + in_off + in_k] == (uint8_t)(in_v32 >> (8 * in_k)), "fixed_encode32 is little-endian at any alignment");
	if (in_k < 24 && (in_k < 4 + in_off || in_k >= 8 + in_off))
		VG_P("C16", buf[in_k] == (uint8_t)(0xC3 ^ in_k), "fixed_encode32 writes exactly 4 bytes");
	VG_P("C16", mtbl_fixed_decode32(buf + 4 + in_off) == in_v32, "fixed_decode32(fixed_encode32(v)) == v");
	n = mtbl_fixed_encode64(buf + 4 + in_off, in_v64);
	VG_P("C16", n == 8, "fixed_encode64 returns 8");
	if (in_k < 8)
		VG_P("C16", buf[4 + in_off + in_k] == (uint8_t)(in_v64 >> (8 * in_k)), "fixed_encode64 is little-endian at any alignment");
	if (in_k < 24 && (in_k < 4 + in_off || in_k >= 12 + in_off))
		VG_P("C16", buf[in_k] == (uint8_t)(0xC3 ^ in_k), "fixed_encode64 writes exactly 8 bytes");
	VG_P("C16", mtbl_fixed_decode64(buf + 4 + in_off) == in_v64, "fixed_decode64(fixed_encode64(v)) == v");
	/* decoders on arbitrary bytes */
	uint8_t in_b[8];
	for (unsigned i = 0; i < 8; i++) in_b[i] = nondet_u8();
	uint64_t w = 0; for (unsigned i = 0; i < 8; i++) w |= (uint64_t)in_b[i] << (8 * i);
	__CPROVER_array_replace(buf + 4 + in_off, in_b);
	VG_P("C16", mtbl_fixed_decode64(buf + 4 + in_off) == w, "fixed_decode64 is little-endian on arbitrary bytes");
	VG_P("C16", mtbl_fixed_decode32(buf + 4 + in_off) == (uint32_t)w, "fixed_decode32 is little-endian on arbitrary bytes");
}
