/* C17: CRC-32C.  Real code: libmy/crc32c-slicing.c (tables + my_crc32c_slicing), libmy/crc32c-sse42.c (my_crc32c_sse42,
 * inline-asm helpers replaced by the Intel SDM contract of the crc32 instruction), libmy/crc32c.c + mtbl/crc32c_wrap.c. */
#include <stdint.h>
#include <stddef.h>
#include "libmy/crc32c-slicing.c"
#include "libmy/crc32c-sse42.c"
#include "spec/ghost.h"

#define POLY 0x82F63B78u        /* Castagnoli, reflected */
static uint32_t ref_step(uint32_t c, uint8_t b)          /* one byte, bit by bit */
{
	c ^= b;
	for (int k = 0; k < 8; k++) c = (c >> 1) ^ ((c & 1) ? POLY : 0);
	return c;
}
static uint32_t ref_crc(const uint8_t *p, size_t n) { uint32_t c = 0xffffffffu; for (size_t i = 0; i < n; i++) c = ref_step(c, p[i]); return ~c; }
static uint32_t Z(uint32_t c) { return g_crc_slicing[0][c & 0xff] ^ (c >> 8); }          /* advance by one zero byte */

/* Intel SDM, CRC32 instruction: accumulate the little-endian bytes of the operand */
uint32_t vg_sdm8(uint32_t crc, uint8_t v) { return ref_step(crc, v); }
uint32_t vg_sdm16(uint32_t crc, uint16_t v) { return ref_step(ref_step(crc, (uint8_t)v), (uint8_t)(v >> 8)); }
uint32_t vg_sdm32(uint32_t crc, uint32_t v) { for (int i = 0; i < 4; i++) crc = ref_step(crc, (uint8_t)(v >> (8 * i))); return crc; }
uint64_t vg_sdm64(uint64_t crc, uint64_t v) { uint32_t c = (uint32_t)crc; for (int i = 0; i < 8; i++) c = ref_step(c, (uint8_t)(v >> (8 * i))); return c; }
uint64_t my_asm_crc32_u64__spec(uint64_t crc, uint64_t value) __CPROVER_requires(crc <= 0xffffffffu) __CPROVER_assigns() __CPROVER_ensures(__CPROVER_return_value == vg_sdm64(crc, value));
uint32_t my_asm_crc32_u32__spec(uint32_t crc, uint32_t value) __CPROVER_requires(1) __CPROVER_assigns() __CPROVER_ensures(__CPROVER_return_value == vg_sdm32(crc, value));
uint32_t my_asm_crc32_u16__spec(uint32_t crc, uint16_t value) __CPROVER_requires(1) __CPROVER_assigns() __CPROVER_ensures(__CPROVER_return_value == vg_sdm16(crc, value));
uint32_t my_asm_crc32_u8__spec(uint32_t crc, uint8_t value) __CPROVER_requires(1) __CPROVER_assigns() __CPROVER_ensures(__CPROVER_return_value == vg_sdm8(crc, value));

/* ======================================================================= table lemmas (all entries, all arguments) */
static uint32_t tstep(uint32_t c, uint8_t b) { return g_crc_slicing[0][(c ^ b) & 0xff] ^ (c >> 8); }     /* Sarwate byte step */
void h_crc_t0(void)
{
	uint8_t in_b = nondet_u8();
	VG_REACH("t0 reachable");
	VG_P("C17", g_crc_slicing[0][in_b] == ref_step(0, in_b), "table 0 is the bitwise CRC-32C (Castagnoli) of each byte value");
}
void h_crc_tk(void)
{
	uint8_t in_b = nondet_u8();
	VG_REACH("tk reachable");
	for (unsigned k = 1; k <= 7; k++)
		VG_P("C17", g_crc_slicing[k][in_b] == Z(g_crc_slicing[k - 1][in_b]), "table k is table k-1 advanced by one zero byte (k = 1..7)");
}
void h_crc_linear(void)
{
	uint8_t in_a = nondet_u8(), in_b = nondet_u8();
	VG_REACH("linear reachable");
	for (unsigned t = 0; t <= 7; t++)
		VG_P("C17", g_crc_slicing[t][in_a ^ in_b] == (g_crc_slicing[t][in_a] ^ g_crc_slicing[t][in_b]), "every table is GF(2)-linear in its index");
}
void h_crc_bytestep(void)
{
	uint32_t in_c = nondet_u32(); uint8_t in_b = nondet_u8();
	VG_REACH("bytestep reachable");
	VG_P("C17", tstep(in_c, in_b) == ref_step(in_c, in_b), "the table-driven byte step equals the bitwise byte step for every state and byte");
}
void h_crc_step4(void)
{
	uint32_t in_c = nondet_u32(), in_w = nondet_u32();
	uint32_t r = in_c; for (int i = 0; i < 4; i++) r = tstep(r, (uint8_t)(in_w >> (8 * i)));
	VG_REACH("step4 reachable");
	VG_P("C17", r == Z(Z(Z(Z(in_c ^ in_w)))), "four byte steps equal four zero-byte advances of (state xor word)");
}

/* ======================================================================= concrete cross-check of both implementations */
#ifndef VG_MAXLEN
#define VG_MAXLEN 40
#endif
static uint8_t vg_buf[VG_MAXLEN + 16] __attribute__((aligned(8)));
static void vg_fill(unsigned pat)
{
	uint32_t x = 0x12345678u + pat * 0x9e3779b9u;
	for (unsigned i = 0; i < sizeof vg_buf; i++) { x = x * 1103515245u + 12345u; vg_buf[i] = pat == 2 ? 0xff : (uint8_t)(x >> 16); }
}
/* Length 0..VG_MAXLEN and the offset inside the buffer are symbolic; so is the numeric address of the buffer (the back end
 * does not fix object addresses), i.e. every alignment of the start address is covered.  Contents: pattern VG_PAT,
 * optionally (VG_BASIS) with one bit flipped at a symbolic position -- pattern + all single-bit neighbours is an affine
 * basis of the inputs of each length. */
#ifndef VG_PAT
#define VG_PAT 0
#endif
static void vg_inputs(size_t *n, unsigned *al)
{
	vg_fill(VG_PAT);
	*n = nondet_size(); *al = nondet_u32(); __CPROVER_assume(*n <= VG_MAXLEN && *al < 8);
#ifdef VG_BASIS
	unsigned in_pos = nondet_u32(), in_bit = nondet_u32(); __CPROVER_assume(in_pos < VG_MAXLEN + 8 && in_bit < 8);
	vg_buf[in_pos] ^= (uint8_t)(1u << in_bit);
#endif
}
void h_crc_cross_slicing(void)
{
	size_t in_n; unsigned in_al; vg_inputs(&in_n, &in_al);
	VG_REACH("slicing cross-check reachable");
	VG_P("C17", my_crc32c_slicing(vg_buf + in_al, in_n) == ref_crc(vg_buf + in_al, in_n), "table-driven implementation == bitwise CRC-32C for every length 0..40 at every alignment");
}
void h_crc_cross_sse42(void)
{
	size_t in_n; unsigned in_al; vg_inputs(&in_n, &in_al);
	VG_REACH("sse42 cross-check reachable");
	VG_P("C17", my_crc32c_sse42(vg_buf + in_al, in_n) == ref_crc(vg_buf + in_al, in_n), "hardware implementation (crc32 instruction per Intel SDM) == bitwise CRC-32C for every length 0..40 at every alignment");
	VG_P("C17", my_crc32c_sse42(vg_buf + in_al, in_n) == my_crc32c_slicing(vg_buf + in_al, in_n), "both implementations return the same value");
}
/* standard check values (RFC 3720 B.4 / the ubiquitous "123456789") */
void h_crc_vectors(void)
{
	static const uint8_t s9[9] = "123456789"; uint8_t z32[32] = {0}, f32[32]; for (int i = 0; i < 32; i++) f32[i] = 0xff;
	VG_REACH("vectors reachable");
	VG_P("C17", ref_crc(s9, 9) == 0xE3069283u && ref_crc(z32, 32) == 0x8A9136AAu && ref_crc(f32, 32) == 0x62A8AB43u, "the reference used here is the standard CRC-32C (iSCSI check values)");
	VG_P("C17", my_crc32c_slicing(s9, 9) == 0xE3069283u && my_crc32c_slicing(z32, 32) == 0x8A9136AAu && my_crc32c_slicing(f32, 32) == 0x62A8AB43u, "table-driven implementation reproduces the iSCSI check values");
}
