/* C06 / C18: ALL of /repo/mtbl/sorter.c runs for real (add, flush, get_entry_batch, write_chunk, compare, iter, write,
 * destroy, the pool wrappers) with the real ubuf/vector code and bytes_compare.  Writer, reader, merger, iterators,
 * thread pool (synchronous delivery; destroy may deliver one late result), mkstemp/unlink/close and qsort are
 * environment stubs with stated contracts and resource accounting.  Sorter states are arbitrary (all histories). */
/* sorter.c allocates INITIAL_SORTER_VEC_SIZE (131072) entry pointers per buffer; a 1 MiB array of pointers is flattened by the
 * back end into millions of variables.  The constant is only a capacity hint: the private header is included first and the
 * hint is lowered for this harness; the text of sorter.c itself is compiled unchanged. */
#include "mtbl/mtbl-private.h"
#undef INITIAL_SORTER_VEC_SIZE
#define INITIAL_SORTER_VEC_SIZE 8
#include "mtbl/sorter.c"
#include "spec/ghost.h"
void *realloc(void *p, size_t n) { VG_A(0, "no vector growth expected in this capped harness"); __CPROVER_assume(0); return p; }
/* memcpy by its definition (ISO C 7.24.2.1): the built-in model turns a symbolic length into a whole-array update that the
 * back end cannot digest for objects of symbolic size; all lengths here are tiny */
void *memcpy(void *dst, const void *src, size_t n)
{
	if (n == sizeof(void *)) { *(void **)dst = *(void *const *)src; return dst; }     /* one pointer (entry_vec_append): copied as a pointer, not byte by byte */
	for (size_t i = 0; i < n; i++) ((uint8_t *)dst)[i] = ((const uint8_t *)src)[i];
	return dst;
}

/* ---------- OS ---------- */
static int vg_fds_open, vg_tmpfiles; static int vg_the_fd = 7; static unsigned vg_mkstemp_calls, vg_unlink_calls; static _Bool vg_tmpl_in_dir;
static char vg_tmpname[32];
int mkstemp(char *tmpl)
{
	vg_mkstemp_calls++; vg_fds_open++; vg_tmpfiles++;
	vg_tmpl_in_dir = (tmpl[0] == 't' && tmpl[1] == '/' && tmpl[2] == '.');       /* configured directory is "t" */
	for (int i = 0; i < 31; i++) { vg_tmpname[i] = tmpl[i]; if (!tmpl[i]) break; }
	return vg_the_fd;
}
int unlink(const char *p) { vg_unlink_calls++; _Bool same = 1; for (int i = 0; i < 31; i++) { if (p[i] != vg_tmpname[i]) same = 0; if (!p[i]) break; } if (same) vg_tmpfiles--; return 0; }
int close(int fd) { if (fd == vg_the_fd) vg_fds_open--; return 0; }
pid_t getpid(void) { return 1; }
int sprintf(char *s, const char *fmt, ...) { const char *t = "/.mtbl.1.XXXXXX"; int i = 0; for (; t[i]; i++) s[i] = t[i]; s[i] = 0; return i; }
/* ISO C qsort, modelled by insertion sort over the caller's comparator (n <= 4) */
void qsort(void *base, size_t n, size_t sz, int (*cmp)(const void *, const void *))
{
	void **a = base;
	for (size_t i = 1; i < 4; i++) if (i < n) for (size_t j = i; j > 0; j--) { if (cmp(&a[j - 1], &a[j]) > 0) { void *t = a[j]; a[j] = a[j - 1]; a[j - 1] = t; } }
}

/* ---------- writer ---------- */
struct mtbl_writer { int fd; unsigned adds; _Bool destroyed; };
struct mtbl_writer_options { int comp; };
static struct mtbl_writer vg_w; static int vg_writers_live;
#define WMAX 4
static uint8_t vg_wkey[WMAX * 2]; static size_t vg_wlk[WMAX]; static uint16_t vg_wval[WMAX]; static size_t vg_wlv[WMAX];
struct mtbl_writer_options *mtbl_writer_options_init(void) { return malloc(sizeof(struct mtbl_writer_options)); }
void mtbl_writer_options_destroy(struct mtbl_writer_options **o) { if (*o) { free(*o); *o = NULL; } }
void mtbl_writer_options_set_compression(struct mtbl_writer_options *o, mtbl_compression_type t) { }
struct mtbl_writer *mtbl_writer_init_fd(int fd, const struct mtbl_writer_options *o) { vg_w.fd = fd; vg_w.adds = 0; vg_w.destroyed = 0; vg_writers_live++; vg_fds_open++; /* dup */ return &vg_w; }
void mtbl_writer_destroy(struct mtbl_writer **w) { if (*w) { (*w)->destroyed = 1; vg_writers_live--; vg_fds_open--; *w = NULL; } }
mtbl_res mtbl_writer_add(struct mtbl_writer *w, const uint8_t *k, size_t lk, const uint8_t *v, size_t lv)
{
	unsigned i = w->adds; VG_A(i < WMAX, "writer capture capacity");
	if (i > 0) { /* the writer refuses keys that are not strictly increasing (C08) */
		size_t pl = vg_wlk[i - 1]; int c = 0; for (size_t j = 0; j < 2; j++) { if (j >= lk || j >= pl) break; if (k[j] != vg_wkey[2 * (i - 1) + j]) { c = k[j] < vg_wkey[2 * (i - 1) + j] ? -1 : 1; break; } }
		if (c == 0) c = lk < pl ? -1 : lk > pl;
		if (c <= 0) return mtbl_res_failure;
	}
	vg_wlk[i] = lk; for (size_t j = 0; j < 2; j++) if (j < lk) vg_wkey[2 * i + j] = k[j];
	vg_wlv[i] = lv; vg_wval[i] = lv >= 2 ? (uint16_t)(v[0] | v[1] << 8) : 0;
	w->adds++;
	return mtbl_res_success;
}
/* ---------- reader ---------- */
struct mtbl_reader { int fd; _Bool alive; }; struct mtbl_source { int d; };
static int vg_readers_live; static unsigned vg_reader_inits;
struct mtbl_reader *mtbl_reader_init_fd(int fd, const struct mtbl_reader_options *o) { struct mtbl_reader *r = malloc(sizeof(*r)); r->fd = fd; r->alive = 1; vg_readers_live++; vg_reader_inits++; return r; }
void mtbl_reader_destroy(struct mtbl_reader **r) { if (*r) { (*r)->alive = 0; vg_readers_live--; *r = NULL; } }
static unsigned vg_sources_added; static struct mtbl_source vg_src;
const struct mtbl_source *mtbl_reader_source(struct mtbl_reader *r) { VG_A(r != NULL && r->alive, "live reader"); return &vg_src; }
/* ---------- merger / iterators ---------- */
struct mtbl_merger { mtbl_merge_func merge; unsigned nsrc; }; struct mtbl_merger_options { mtbl_merge_func merge; };
struct mtbl_iter { int d; };
static int vg_mergers_live, vg_iters_live;
struct mtbl_merger_options *mtbl_merger_options_init(void) { struct mtbl_merger_options *o = malloc(sizeof(*o)); o->merge = NULL; return o; }
void mtbl_merger_options_destroy(struct mtbl_merger_options **o) { if (*o) { free(*o); *o = NULL; } }
void mtbl_merger_options_set_merge_func(struct mtbl_merger_options *o, mtbl_merge_func m, void *c) { o->merge = m; }
static struct mtbl_merger *vg_last_merger;
struct mtbl_merger *mtbl_merger_init(const struct mtbl_merger_options *o) { struct mtbl_merger *m = malloc(sizeof(*m)); m->merge = o->merge; m->nsrc = 0; vg_mergers_live++; vg_last_merger = m; return m; }
void mtbl_merger_destroy(struct mtbl_merger **m) { if (*m) { vg_mergers_live--; *m = NULL; } }
void mtbl_merger_add_source(struct mtbl_merger *m, const struct mtbl_source *s) { m->nsrc++; }
const struct mtbl_source *mtbl_merger_source(struct mtbl_merger *m) { return &vg_src; }
struct mtbl_iter *mtbl_source_iter(const struct mtbl_source *s) { vg_iters_live++; return malloc(sizeof(struct mtbl_iter)); }
struct mtbl_iter *mtbl_iter_init(mtbl_iter_seek_func s, mtbl_iter_next_func n, mtbl_iter_free_func f, void *c) { vg_iters_live++; return malloc(sizeof(struct mtbl_iter)); }
void mtbl_iter_destroy(struct mtbl_iter **it) { if (*it) { vg_iters_live--; *it = NULL; } }
mtbl_res mtbl_iter_next(struct mtbl_iter *it, const uint8_t **k, size_t *lk, const uint8_t **v, size_t *lv) { return mtbl_res_failure; }
mtbl_res mtbl_iter_seek(struct mtbl_iter *it, const uint8_t *k, size_t lk) { return mtbl_res_success; }
/* ---------- thread pool: synchronous; destroy may still deliver one result that was in flight ---------- */
struct result_handler { result_cb cb; void *cbdata; };
static struct result_handler vg_rh; static unsigned vg_rh_destroyed; static _Bool vg_late_result; static struct mtbl_reader *vg_late_reader;
struct result_handler *result_handler_init(result_cb cb, void *cbdata) { vg_rh.cb = cb; vg_rh.cbdata = cbdata; return &vg_rh; }
void result_handler_destroy(struct result_handler **rhp)
{
	if (*rhp == NULL) return;
	if (vg_late_result) { vg_late_reader = mtbl_reader_init_fd(9, NULL); (*rhp)->cb(vg_late_reader, (*rhp)->cbdata); }   /* a chunk job still in flight completes now */
	vg_rh_destroyed++; *rhp = NULL;
}
void threadpool_dispatch(struct threadpool *p, struct result_handler *rh, bool ordered, thread_cb cb, void *arg) { void *r = cb(arg); rh->cb(r, rh->cbdata); }

/* ---------- merge function: adds 16-bit values (distinct powers of 4 identify the multiset used); may fail ---------- */
static unsigned vg_merge_calls; static _Bool vg_merge_fails;
static void vg_merge(void *c, const uint8_t *k, size_t lk, const uint8_t *v0, size_t l0, const uint8_t *v1, size_t l1, uint8_t **out, size_t *lo)
{
	vg_merge_calls++;
	if (vg_merge_fails) { *out = NULL; *lo = 0; return; }
	uint16_t s = (uint16_t)((v0[0] | v0[1] << 8) + (v1[0] | v1[1] << 8));
	*out = malloc(2); (*out)[0] = (uint8_t)s; (*out)[1] = (uint8_t)(s >> 8); *lo = 2;
}

/* ---------- arbitrary sorter ---------- */
static entry_vec *vg_evec(size_t cap) { entry_vec *v = malloc(sizeof(*v)); v->_n = 0; v->_n_alloced = cap; v->_hint = cap; v->_v = malloc(cap * sizeof(struct entry *)); v->_p = v->_v; return v; }
static reader_vec *vg_rvec(size_t cap) { reader_vec *v = malloc(sizeof(*v)); v->_n = 0; v->_n_alloced = cap; v->_hint = cap; v->_v = malloc(cap * sizeof(struct mtbl_reader *)); v->_p = v->_v; return v; }
/* every allocation size is a compile-time constant on its path (objects of symbolic size are very expensive for the back end):
 * symbolic lengths are split into their three concrete cases */
#define VG_SPLIT3(lk, CALL0, CALL1, CALL2) do { if ((lk) == 0) { CALL0; } else if ((lk) == 1) { CALL1; } else { CALL2; } } while (0)
static struct entry *vg_mk_entry(const uint8_t *k, size_t lk, uint16_t val)
{ struct entry *e = malloc(sizeof(struct entry) + 4); e->len_key = lk; e->len_val = 2; for (size_t i = 0; i < lk; i++) e->data[i] = k[i]; e->data[lk] = (uint8_t)val; e->data[lk + 1] = (uint8_t)(val >> 8); return e; }
static struct mtbl_sorter *vg_any_sorter(_Bool pooled, unsigned nent, unsigned nreaders)
{
	struct mtbl_sorter *s = malloc(sizeof(*s));
	s->opt.max_memory = nondet_size(); __CPROVER_assume(s->opt.max_memory >= 32 && s->opt.max_memory <= ((size_t)1 << 40));
	s->opt.tmp_dname = malloc(2); s->opt.tmp_dname[0] = 't'; s->opt.tmp_dname[1] = 0;
	s->opt.merge = vg_merge; s->opt.merge_clos = NULL; s->opt.pool = NULL;
	s->vec = vg_evec(8); s->readers = vg_rvec(8);
	s->entry_bytes = 0; s->iterating = 0;
	for (unsigned i = 0; i < 2; i++) if (i < nent) { uint8_t k[2] = { nondet_u8(), nondet_u8() }; size_t lk = nondet_size(); __CPROVER_assume(lk <= 2);
		struct entry *e = vg_mk_entry(k, lk, (uint16_t)(1u << (2 * i))); entry_vec_add(s->vec, e); s->entry_bytes += sizeof(struct entry) + lk + 2; }
	for (unsigned i = 0; i < 2; i++) if (i < nreaders) reader_vec_add(s->readers, mtbl_reader_init_fd(20 + i, NULL));
	s->pool = NULL; s->rhandler = NULL;
	if (pooled) { s->pool = (struct threadpool *)malloc(1); s->rhandler = result_handler_init(_collect_readers_cb, s); }
	return s;
}

/* ======================================================================= one chunk: sort, fold, write, release */
void h_sorter_chunk_step(void)
{
#ifdef VG_CHUNK_N
	unsigned in_n = VG_CHUNK_N;                    /* shape (entry count, key lengths) concrete per variant; key/value bytes symbolic */
	static const size_t vg_lks[3] = VG_CHUNK_LKS;
#else
	unsigned in_n = nondet_u32(); __CPROVER_assume(in_n >= 1 && in_n <= 3);
#endif
	vg_merge_fails = nondet_bool();
	struct mtbl_sorter *s = vg_any_sorter(0, 0, 0);
	struct entry_batch *b = calloc(1, sizeof(*b)); b->s = s; b->entries = vg_evec(4);
	uint8_t in_k[3][2]; size_t in_lk[3];
	for (unsigned i = 0; i < 3; i++) { in_k[i][0] = nondet_u8(); in_k[i][1] = nondet_u8();
#ifdef VG_CHUNK_N
		in_lk[i] = vg_lks[i];
#else
		in_lk[i] = nondet_size(); __CPROVER_assume(in_lk[i] <= 2);
#endif
		if (i < in_n) entry_vec_add(b->entries, vg_mk_entry(in_k[i], in_lk[i], (uint16_t)(1u << (2 * i)))); }
	int fds0 = vg_fds_open;
	struct mtbl_reader *r = _mtbl_sorter_write_chunk(b);
	VG_REACH("_mtbl_sorter_write_chunk returns");
	/* resources, on every path */
	VG_P("C18", vg_fds_open == fds0, "a chunk leaves no descriptor open (the reader maps the file, the writer closes its duplicate)");
	VG_P("C18,C06", vg_mkstemp_calls == 1 && vg_unlink_calls == 1 && vg_tmpfiles == 0, "the spill file is created once and unlinked, on every path");
	VG_P("C06", vg_tmpl_in_dir, "the spill file is created inside the configured temporary directory");
	VG_P("C18", vg_writers_live == 0, "the chunk's writer is destroyed on every path");
	/* expected folded output: distinct keys ascending, values summed */
	unsigned nd = 0; uint8_t ek[3][2]; size_t elk[3]; uint16_t ev[3]; unsigned dupcount = 0;
	for (unsigned pass = 0; pass < 3; pass++) {       /* selection of the next smallest key not yet emitted */
		int best = -1;
		for (unsigned i = 0; i < 3; i++) if (i < in_n) {
			_Bool after = 1;
			if (nd > 0) { int c = bytes_compare(in_k[i], in_lk[i], ek[nd - 1], elk[nd - 1]); after = c > 0; }
			if (after && (best < 0 || bytes_compare(in_k[i], in_lk[i], in_k[best], in_lk[best]) < 0)) best = (int)i;
		}
		if (best < 0) break;
		ek[nd][0] = in_k[best][0]; ek[nd][1] = in_k[best][1]; elk[nd] = in_lk[best]; ev[nd] = 0;
		for (unsigned i = 0; i < 3; i++) if (i < in_n && bytes_compare(in_k[i], in_lk[i], in_k[best], in_lk[best]) == 0) ev[nd] += (uint16_t)(1u << (2 * i));
		nd++;
	}
	dupcount = in_n - nd;
	if (r != NULL) {
		VG_REACH("chunk written");
		VG_P("C06", vg_w.adds == nd, "the chunk holds each distinct key once");
		unsigned in_j = nondet_u32(); __CPROVER_assume(in_j < 3);
		if (in_j < nd && in_j < vg_w.adds) {
			VG_P("C06", vg_wlk[in_j] == elk[in_j] && (elk[in_j] < 1 || vg_wkey[2 * in_j] == ek[in_j][0]) && (elk[in_j] < 2 || vg_wkey[2 * in_j + 1] == ek[in_j][1]), "keys are written in ascending order (a key that is a proper prefix of the next one is a different key)");
			VG_P("C06", vg_wlv[in_j] == 2 && vg_wval[in_j] == ev[in_j], "the value is the fold of the merge function over exactly the values added for that key");
		}
		VG_P("C06", vg_merge_calls == dupcount, "the merge function is called once per duplicate");
		VG_P("C18", vg_readers_live == 1, "exactly one reader is handed back");
	} else {
		VG_P("C06,C18", vg_merge_fails && dupcount > 0, "a chunk fails only when the merge function fails");
		VG_P("C18", vg_readers_live == 0, "a failed chunk hands back nothing");
	}
}

/* ======================================================================= mtbl_sorter_add: gate, copy, spill trigger */
void h_sorter_add_step(void)
{
#ifdef VG_ADD_NE
	unsigned in_ne = VG_ADD_NE;
#else
	unsigned in_ne = nondet_u32(); __CPROVER_assume(in_ne <= 2);
#endif
	struct mtbl_sorter *s = vg_any_sorter(0, in_ne, 0);
	s->iterating = nondet_bool(); vg_merge_fails = 0;
	uint8_t in_key[2] = { nondet_u8(), nondet_u8() }, in_val[2] = { nondet_u8(), nondet_u8() }; size_t in_lk = nondet_size(); __CPROVER_assume(in_lk <= 2);
	size_t eb0 = s->entry_bytes, n0 = entry_vec_size(s->vec); _Bool it0 = s->iterating;
	mtbl_res res;
	VG_SPLIT3(in_lk, res = mtbl_sorter_add(s, in_key, 0, in_val, 2), res = mtbl_sorter_add(s, in_key, 1, in_val, 2), res = mtbl_sorter_add(s, in_key, 2, in_val, 2));
	VG_REACH("mtbl_sorter_add returns");
	if (it0) { VG_P("C06", res == mtbl_res_failure && entry_vec_size(s->vec) == n0 && s->entry_bytes == eb0 && vg_mkstemp_calls == 0, "once iteration has begun mtbl_sorter_add is refused and changes nothing"); return; }
	_Bool spill = (eb0 + sizeof(struct entry) + in_lk + 2 + 8 * (n0 + 1) >= s->opt.max_memory);
	VG_P("C06", spill == (vg_mkstemp_calls == 1), "a spill happens exactly when the buffered entries (plus their pointers) reach the memory limit, no later");
	if (!spill) {
		VG_P("C06", res == mtbl_res_success && entry_vec_size(s->vec) == n0 + 1 && s->entry_bytes == eb0 + sizeof(struct entry) + in_lk + 2, "the entry is buffered and accounted with its header, key and value bytes");
		struct entry *e = entry_vec_value(s->vec, n0);
		VG_P("C06", e->len_key == in_lk && e->len_val == 2 && (in_lk < 1 || e->data[0] == in_key[0]) && (in_lk < 2 || e->data[1] == in_key[1]) && e->data[in_lk] == in_val[0] && e->data[in_lk + 1] == in_val[1], "the buffered entry is a copy of the caller's key and value");
	} else {
#if !defined(VG_ADD_NE) || VG_ADD_NE > 0
		VG_REACH("spill reachable");
#endif
		VG_P("C06", entry_vec_size(s->vec) == 0 && s->entry_bytes == 0 && reader_vec_size(s->readers) == 1, "after a spill the buffer is empty and the chunk's reader is kept");
		VG_P("C06", vg_w.adds >= 1 && vg_w.adds <= n0 + 1, "the spilled chunk holds the buffered entries including the new one");
	}
}

/* ======================================================================= mtbl_sorter_iter / mtbl_sorter_write: final merge wiring */
void h_sorter_iter_step(void)
{
#ifdef VG_ITER_NE
	unsigned in_ne = VG_ITER_NE, in_nr = nondet_u32(); __CPROVER_assume(in_nr <= 2);
#else
	unsigned in_ne = nondet_u32(), in_nr = nondet_u32(); __CPROVER_assume(in_ne <= 2 && in_nr <= 2);
#endif
	_Bool in_pooled = nondet_bool();
	struct mtbl_sorter *s = vg_any_sorter(in_pooled, in_ne, in_nr);
	vg_merge_fails = 0;
	struct mtbl_iter *it = mtbl_sorter_iter(s);
	VG_REACH("mtbl_sorter_iter returns");
	VG_P("C06", it != NULL, "iteration starts");
	VG_P("C06", s->iterating, "once iteration has begun the sorter is marked iterating (whether or not entries were still buffered)");
	VG_P("C06", entry_vec_size(s->vec) == 0 && (in_ne == 0) == (vg_mkstemp_calls == 0), "entries still buffered are spilled as a last chunk first");
	VG_P("C06", vg_last_merger != NULL && vg_last_merger->nsrc == in_nr + (in_ne > 0 ? 1 : 0) && vg_last_merger->merge == vg_merge, "the final merger gets every chunk reader exactly once and the sorter's merge function");
	VG_P("C06,C13", !in_pooled || vg_rh_destroyed == 1, "a pooled sorter waits for outstanding chunk jobs before wiring the merger");
	uint8_t k[1] = {0};
	VG_P("C06", mtbl_sorter_add(s, k, 1, k, 1) == mtbl_res_failure, "mtbl_sorter_add is refused after iteration began");
	struct mtbl_writer w2;
	VG_P("C06", mtbl_sorter_write(s, &w2) == mtbl_res_failure, "mtbl_sorter_write is refused after iteration began");
	mtbl_iter_destroy(&it);
}

/* ======================================================================= mtbl_sorter_destroy with a chunk job still in flight */
void h_sorter_destroy_step(void)
{
	unsigned in_ne = nondet_u32(), in_nr = nondet_u32(); __CPROVER_assume(in_ne <= 2 && in_nr <= 2);
	_Bool in_pooled = nondet_bool();
	struct mtbl_sorter *s = vg_any_sorter(in_pooled, in_ne, in_nr);
	vg_late_result = in_pooled && nondet_bool();
	mtbl_sorter_destroy(&s);
	VG_REACH("mtbl_sorter_destroy returns");
	VG_P("C18", vg_readers_live == 0, "destroy releases every chunk reader, including one delivered by a job that was still in flight");
	VG_P("C18,C13", !in_pooled || vg_rh_destroyed == 1, "destroy joins the result handler");
}
