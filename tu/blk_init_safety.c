/* C19: block_init (mtbl/block.c, real) on an arbitrary byte range of ANY length up to 1 TiB with arbitrary content: every byte it
 * reads lies inside [data, data + size), and a block it accepts (size != 0 afterwards) has its restart array inside the range.
 * This is the function mtbl_reader_init_fd hands the index block to after its own bounds checks (group c19_reader_open runs the
 * two together; this group isolates block_init so that a change inside it is decided in seconds). */
#include "mtbl/block.c"
#include "spec/ghost.h"
void h_blk_init_safety(void)
{
	size_t in_size = nondet_size();
	__CPROVER_assume(in_size <= ((size_t)1 << 40));
	uint8_t *data = malloc(in_size);              /* exactly in_size readable bytes, arbitrary content */
	__CPROVER_assume(data != NULL);
	struct block *b = block_init(data, in_size, false);
	VG_REACH("block_init returns");
	VG_P("C19", b != NULL && b->data == data && (b->size == 0 || b->size == in_size), "the block spans exactly the bytes given, or is marked unusable (size 0)");
	if (b->size != 0) {
		VG_REACH("block accepted");
		VG_P("C19", b->restart_offset <= b->size - sizeof(uint32_t), "an accepted block's restart array starts inside the block");
	}
}
