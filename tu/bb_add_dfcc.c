/* C09 / C01 / C11: block_builder_add (mtbl/block_builder.c, real) under DFCC for keys and values of ANY length below 4 GiB
 * (the entry header numbers are 32-bit varints).  The vector operations, the varint encoder and memcpy are replaced by
 * capture contracts that record, in order, what is encoded and copied; the prefix loop runs for real under a loop contract.
 * Postconditions (restart cadence, longest common prefix elided, header numbers, what is copied, the remembered key, growth
 * of the size estimate).  Byte-level layout of what is encoded: groups bb_add_step (bounded, real decoder), c16_* (varints). */
#include "mtbl/block_builder.c"
#include "spec/ghost.h"

size_t vg_k;                                   /* universal index: never assigned */
unsigned vg_seq;                               /* global order of the captured calls */
/* one ghost record per replaced callee (a single assigns target each: DFCC's write-set bookkeeping loops over the targets) */
struct { unsigned calls; uint64_t val; uint64_vec *vec; } vg_ra;
struct { unsigned calls, seq; size_t n; ubuf *u; } vg_rsv;
struct { unsigned calls; size_t x0, x1, x2, x3, x4; unsigned seq0, seq1, seq2, seq3, seq4; } vg_adv;
struct { unsigned calls; uint32_t val0, val1, val2; unsigned seq0, seq1, seq2; } vg_ve;
struct { unsigned calls; const void *src0, *src1; size_t n0, n1; unsigned seq0, seq1; } vg_mc;
struct { unsigned calls, seq; ubuf *u; } vg_reset;
struct { unsigned calls, seq; const uint8_t *src; size_t n; ubuf *u; } vg_app;

static unsigned vg_len32(uint32_t v) { return v < (1u << 7) ? 1 : v < (1u << 14) ? 2 : v < (1u << 21) ? 3 : v < (1u << 28) ? 4 : 5; }

void uint64_vec_add__cap(uint64_vec *vec, uint64_t elem)
__CPROVER_requires(vg_ra.calls == 0)
__CPROVER_assigns(vec->_n, __CPROVER_object_whole(&vg_ra))
__CPROVER_ensures(vec->_n == __CPROVER_old(vec->_n) + 1 && vg_ra.calls == 1 && vg_ra.val == elem && vg_ra.vec == vec)
;
void ubuf_reserve__cap(ubuf *u, size_t n)
__CPROVER_requires(vg_rsv.calls == 0)
__CPROVER_assigns(__CPROVER_object_whole(&vg_rsv), vg_seq)
__CPROVER_ensures(vg_rsv.calls == 1 && vg_rsv.n == n && vg_rsv.u == u && vg_seq == __CPROVER_old(vg_seq) + 1 && vg_rsv.seq == vg_seq)
;
void ubuf_advance__cap(ubuf *u, size_t x)
__CPROVER_requires(vg_adv.calls < 5)
__CPROVER_assigns(u->_n, __CPROVER_object_whole(&vg_adv), vg_seq)
__CPROVER_ensures(u->_n == __CPROVER_old(u->_n) + x && vg_adv.calls == __CPROVER_old(vg_adv.calls) + 1 && vg_seq == __CPROVER_old(vg_seq) + 1)
__CPROVER_ensures(vg_adv.x0 == (__CPROVER_old(vg_adv.calls) == 0 ? x : __CPROVER_old(vg_adv.x0)) && vg_adv.x1 == (__CPROVER_old(vg_adv.calls) == 1 ? x : __CPROVER_old(vg_adv.x1)) && vg_adv.x2 == (__CPROVER_old(vg_adv.calls) == 2 ? x : __CPROVER_old(vg_adv.x2)) && vg_adv.x3 == (__CPROVER_old(vg_adv.calls) == 3 ? x : __CPROVER_old(vg_adv.x3)) && vg_adv.x4 == (__CPROVER_old(vg_adv.calls) == 4 ? x : __CPROVER_old(vg_adv.x4)))
__CPROVER_ensures(vg_adv.seq0 == (__CPROVER_old(vg_adv.calls) == 0 ? vg_seq : __CPROVER_old(vg_adv.seq0)) && vg_adv.seq1 == (__CPROVER_old(vg_adv.calls) == 1 ? vg_seq : __CPROVER_old(vg_adv.seq1)) && vg_adv.seq2 == (__CPROVER_old(vg_adv.calls) == 2 ? vg_seq : __CPROVER_old(vg_adv.seq2)) && vg_adv.seq3 == (__CPROVER_old(vg_adv.calls) == 3 ? vg_seq : __CPROVER_old(vg_adv.seq3)) && vg_adv.seq4 == (__CPROVER_old(vg_adv.calls) == 4 ? vg_seq : __CPROVER_old(vg_adv.seq4)))
;
size_t mtbl_varint_encode32__cap(uint8_t *ptr, uint32_t v)
__CPROVER_requires(vg_ve.calls < 3)
__CPROVER_assigns(__CPROVER_object_whole(&vg_ve), vg_seq)
__CPROVER_ensures(__CPROVER_return_value == vg_len32(v) && vg_ve.calls == __CPROVER_old(vg_ve.calls) + 1 && vg_seq == __CPROVER_old(vg_seq) + 1)
__CPROVER_ensures(vg_ve.val0 == (__CPROVER_old(vg_ve.calls) == 0 ? v : __CPROVER_old(vg_ve.val0)) && vg_ve.val1 == (__CPROVER_old(vg_ve.calls) == 1 ? v : __CPROVER_old(vg_ve.val1)) && vg_ve.val2 == (__CPROVER_old(vg_ve.calls) == 2 ? v : __CPROVER_old(vg_ve.val2)))
__CPROVER_ensures(vg_ve.seq0 == (__CPROVER_old(vg_ve.calls) == 0 ? vg_seq : __CPROVER_old(vg_ve.seq0)) && vg_ve.seq1 == (__CPROVER_old(vg_ve.calls) == 1 ? vg_seq : __CPROVER_old(vg_ve.seq1)) && vg_ve.seq2 == (__CPROVER_old(vg_ve.calls) == 2 ? vg_seq : __CPROVER_old(vg_ve.seq2)))
;
void *memcpy__cap(void *dst, const void *src, size_t n)
__CPROVER_requires(vg_mc.calls < 2)
__CPROVER_assigns(__CPROVER_object_whole(&vg_mc), vg_seq)
__CPROVER_ensures(vg_mc.calls == __CPROVER_old(vg_mc.calls) + 1 && vg_seq == __CPROVER_old(vg_seq) + 1)
__CPROVER_ensures(vg_mc.src0 == (__CPROVER_old(vg_mc.calls) == 0 ? src : __CPROVER_old(vg_mc.src0)) && vg_mc.src1 == (__CPROVER_old(vg_mc.calls) == 1 ? src : __CPROVER_old(vg_mc.src1)))
__CPROVER_ensures(vg_mc.n0 == (__CPROVER_old(vg_mc.calls) == 0 ? n : __CPROVER_old(vg_mc.n0)) && vg_mc.n1 == (__CPROVER_old(vg_mc.calls) == 1 ? n : __CPROVER_old(vg_mc.n1)))
__CPROVER_ensures(vg_mc.seq0 == (__CPROVER_old(vg_mc.calls) == 0 ? vg_seq : __CPROVER_old(vg_mc.seq0)) && vg_mc.seq1 == (__CPROVER_old(vg_mc.calls) == 1 ? vg_seq : __CPROVER_old(vg_mc.seq1)))
;
void ubuf_reset__cap(ubuf *u)
__CPROVER_requires(vg_reset.calls == 0)
__CPROVER_assigns(u->_n, __CPROVER_object_whole(&vg_reset), vg_seq)
__CPROVER_ensures(u->_n == 0 && vg_reset.calls == 1 && vg_reset.u == u && vg_seq == __CPROVER_old(vg_seq) + 1 && vg_reset.seq == vg_seq)
;
void ubuf_append__cap(ubuf *u, uint8_t const *elems, size_t n)
__CPROVER_requires(vg_app.calls == 0)
__CPROVER_assigns(u->_n, __CPROVER_object_whole(&vg_app), vg_seq)
__CPROVER_ensures(u->_n == __CPROVER_old(u->_n) + n && vg_app.calls == 1 && vg_app.src == elems && vg_app.n == n && vg_app.u == u && vg_seq == __CPROVER_old(vg_seq) + 1 && vg_app.seq == vg_seq)
;

#define VG_OLD_LAST __CPROVER_old(b->last_key->_n)
#define VG_SHARED ((size_t)vg_ve.val0)
#define VG_RESTART (__CPROVER_old(b->counter) == b->block_restart_interval)
void block_builder_add__spec(struct block_builder *b, const uint8_t *key, size_t len_key, const uint8_t *val, size_t len_val)
__CPROVER_requires(__CPROVER_is_fresh(b, sizeof(*b)) && __CPROVER_is_fresh(b->buf, sizeof(ubuf)) && __CPROVER_is_fresh(b->last_key, sizeof(ubuf)) && __CPROVER_is_fresh(b->restarts, sizeof(uint64_vec)))
__CPROVER_requires(b->counter <= b->block_restart_interval && !b->finished)
__CPROVER_requires(len_key <= UINT32_MAX && len_val <= UINT32_MAX && b->last_key->_n <= UINT32_MAX && b->buf->_n <= ((size_t)1 << 50) && b->restarts->_n <= ((size_t)1 << 40))
__CPROVER_requires(__CPROVER_is_fresh(b->last_key->_v, b->last_key->_n + 1) && __CPROVER_is_fresh(key, len_key + 1))
__CPROVER_requires(vg_seq == 0 && vg_ra.calls == 0 && vg_rsv.calls == 0 && vg_adv.calls == 0 && vg_ve.calls == 0 && vg_mc.calls == 0 && vg_reset.calls == 0 && vg_app.calls == 0)
__CPROVER_assigns(b->counter, b->buf->_n, b->last_key->_n, b->restarts->_n, vg_seq, __CPROVER_object_whole(&vg_ra), __CPROVER_object_whole(&vg_rsv), __CPROVER_object_whole(&vg_adv), __CPROVER_object_whole(&vg_ve), __CPROVER_object_whole(&vg_mc), __CPROVER_object_whole(&vg_reset), __CPROVER_object_whole(&vg_app))
/* restart cadence: a restart point is recorded exactly when restart-interval entries have been added since the last one; it
 * is the offset at which this entry starts */
__CPROVER_ensures(vg_ra.calls == (VG_RESTART ? 1 : 0))
__CPROVER_ensures(VG_RESTART ==> (vg_ra.vec == b->restarts && vg_ra.val == __CPROVER_old(b->buf->_n) && b->restarts->_n == __CPROVER_old(b->restarts->_n) + 1 && b->counter == 1))
__CPROVER_ensures(!VG_RESTART ==> (b->restarts->_n == __CPROVER_old(b->restarts->_n) && b->counter == __CPROVER_old(b->counter) + 1))
/* the entry header: shared, non_shared, value length -- three varints, in that order */
__CPROVER_ensures(vg_ve.calls == 3 && vg_ve.seq0 < vg_ve.seq1 && vg_ve.seq1 < vg_ve.seq2 && vg_ve.val1 == len_key - VG_SHARED && vg_ve.val2 == len_val)
/* shared = 0 at a restart point, otherwise the LONGEST common prefix with the previous key */
__CPROVER_ensures(VG_RESTART ==> VG_SHARED == 0)
__CPROVER_ensures(VG_SHARED <= len_key && VG_SHARED <= VG_OLD_LAST)
__CPROVER_ensures(vg_k < VG_SHARED ==> b->last_key->_v[vg_k] == key[vg_k])
__CPROVER_ensures(!VG_RESTART ==> (VG_SHARED == len_key || VG_SHARED == VG_OLD_LAST || b->last_key->_v[VG_SHARED] != key[VG_SHARED]))
/* then the key suffix and the value are copied, in that order, each directly after the preceding piece */
__CPROVER_ensures(vg_mc.calls == 2 && vg_mc.src0 == key + VG_SHARED && vg_mc.n0 == len_key - VG_SHARED && vg_mc.src1 == val && vg_mc.n1 == len_val && vg_ve.seq2 < vg_mc.seq0 && vg_mc.seq0 < vg_mc.seq1)
__CPROVER_ensures(vg_adv.calls == 5 && vg_adv.x0 == vg_len32(vg_ve.val0) && vg_adv.x1 == vg_len32(vg_ve.val1) && vg_adv.x2 == vg_len32(vg_ve.val2) && vg_adv.x3 == vg_mc.n0 && vg_adv.x4 == vg_mc.n1)
__CPROVER_ensures(vg_ve.seq0 < vg_adv.seq0 && vg_adv.seq0 < vg_ve.seq1 && vg_ve.seq1 < vg_adv.seq1 && vg_adv.seq1 < vg_ve.seq2 && vg_ve.seq2 < vg_adv.seq2
                  && vg_adv.seq2 < vg_mc.seq0 && vg_mc.seq0 < vg_adv.seq3 && vg_adv.seq3 < vg_mc.seq1 && vg_mc.seq1 < vg_adv.seq4)
/* room is reserved before anything is written, for at least the bytes written */
__CPROVER_ensures(vg_rsv.calls == 1 && vg_rsv.u == b->buf && vg_rsv.seq < vg_ve.seq0 && vg_rsv.n >= vg_adv.x0 + vg_adv.x1 + vg_adv.x2 + vg_adv.x3 + vg_adv.x4)
/* the block grows by exactly header + key suffix + value (this is what the writer's block-size gate relies on) */
__CPROVER_ensures(b->buf->_n == __CPROVER_old(b->buf->_n) + vg_len32(vg_ve.val0) + vg_len32(vg_ve.val1) + vg_len32(vg_ve.val2) + (len_key - VG_SHARED) + len_val)
/* the remembered key becomes this key */
__CPROVER_ensures(vg_reset.calls == 1 && vg_app.calls == 1 && vg_reset.u == b->last_key && vg_app.u == b->last_key && vg_reset.seq < vg_app.seq && vg_app.src == key && vg_app.n == len_key && b->last_key->_n == len_key && vg_mc.seq1 < vg_reset.seq)
;
void h_bb_add_dfcc(void)
{
	struct block_builder *b; const uint8_t *k, *v; size_t lk, lv;
	block_builder_add(b, k, lk, v, lv);
	VG_REACH("block_builder_add returns");
}
