/* C09 / C01 / C11: block_builder_add (mtbl/block_builder.c, real) under DFCC for keys and values of ANY length below 4 GiB
 * (the entry header numbers are 32-bit varints).  The vector operations, the varint encoder and memcpy are replaced by
 * capture contracts that record, in order, what is encoded and copied; the prefix loop runs for real under a loop contract.
 * Postconditions (restart cadence, longest common prefix elided, header numbers, what is copied, the remembered key, growth
 * of the size estimate).  Byte-level layout of what is encoded: groups bb_add_step (bounded, real decoder), c16_* (varints). */
#include "mtbl/block_builder.c"
#include "spec/ghost.h"

size_t vg_k;                                   /* universal index: never assigned */
unsigned vg_seq;                               /* global order of the captured calls */
unsigned vg_ra_calls; uint64_t vg_ra_val; uint64_vec *vg_ra_vec;
unsigned vg_rsv_calls, vg_rsv_seq; size_t vg_rsv_n; ubuf *vg_rsv_u;
unsigned vg_adv_calls; size_t vg_adv_x[5]; unsigned vg_adv_seq[5];
unsigned vg_ve_calls; uint32_t vg_ve_val[3]; unsigned vg_ve_seq[3];
unsigned vg_mc_calls; const void *vg_mc_src[2]; size_t vg_mc_n[2]; unsigned vg_mc_seq[2];
unsigned vg_reset_calls, vg_reset_seq, vg_app_calls, vg_app_seq; const uint8_t *vg_app_src; size_t vg_app_n; ubuf *vg_app_u, *vg_reset_u;

static unsigned vg_len32(uint32_t v) { return v < (1u << 7) ? 1 : v < (1u << 14) ? 2 : v < (1u << 21) ? 3 : v < (1u << 28) ? 4 : 5; }

void uint64_vec_add__cap(uint64_vec *vec, uint64_t elem)
__CPROVER_requires(vg_ra_calls == 0)
__CPROVER_assigns(vec->_n, vg_ra_calls, vg_ra_val, vg_ra_vec)
__CPROVER_ensures(vec->_n == __CPROVER_old(vec->_n) + 1 && vg_ra_calls == 1 && vg_ra_val == elem && vg_ra_vec == vec)
;
void ubuf_reserve__cap(ubuf *u, size_t n)
__CPROVER_requires(vg_rsv_calls == 0)
__CPROVER_assigns(vg_rsv_calls, vg_rsv_n, vg_rsv_u, vg_seq, vg_rsv_seq)
__CPROVER_ensures(vg_rsv_calls == 1 && vg_rsv_n == n && vg_rsv_u == u && vg_seq == __CPROVER_old(vg_seq) + 1 && vg_rsv_seq == vg_seq)
;
void ubuf_advance__cap(ubuf *u, size_t x)
__CPROVER_requires(vg_adv_calls < 5)
__CPROVER_assigns(u->_n, vg_adv_calls, __CPROVER_object_whole(vg_adv_x), __CPROVER_object_whole(vg_adv_seq), vg_seq)
__CPROVER_ensures(u->_n == __CPROVER_old(u->_n) + x && vg_adv_calls == __CPROVER_old(vg_adv_calls) + 1 && vg_seq == __CPROVER_old(vg_seq) + 1)
__CPROVER_ensures(vg_adv_x[__CPROVER_old(vg_adv_calls)] == x && vg_adv_seq[__CPROVER_old(vg_adv_calls)] == vg_seq)
__CPROVER_ensures(vg_k < 5 && vg_k != __CPROVER_old(vg_adv_calls) ==> (vg_adv_x[vg_k] == __CPROVER_old(vg_adv_x[vg_k]) && vg_adv_seq[vg_k] == __CPROVER_old(vg_adv_seq[vg_k])))
;
size_t mtbl_varint_encode32__cap(uint8_t *ptr, uint32_t v)
__CPROVER_requires(vg_ve_calls < 3)
__CPROVER_assigns(vg_ve_calls, __CPROVER_object_whole(vg_ve_val), __CPROVER_object_whole(vg_ve_seq), vg_seq)
__CPROVER_ensures(__CPROVER_return_value == vg_len32(v) && vg_ve_calls == __CPROVER_old(vg_ve_calls) + 1 && vg_seq == __CPROVER_old(vg_seq) + 1)
__CPROVER_ensures(vg_ve_val[__CPROVER_old(vg_ve_calls)] == v && vg_ve_seq[__CPROVER_old(vg_ve_calls)] == vg_seq)
__CPROVER_ensures(vg_k < 3 && vg_k != __CPROVER_old(vg_ve_calls) ==> (vg_ve_val[vg_k] == __CPROVER_old(vg_ve_val[vg_k]) && vg_ve_seq[vg_k] == __CPROVER_old(vg_ve_seq[vg_k])))
;
void *memcpy__cap(void *dst, const void *src, size_t n)
__CPROVER_requires(vg_mc_calls < 2)
__CPROVER_assigns(vg_mc_calls, __CPROVER_object_whole(vg_mc_src), __CPROVER_object_whole(vg_mc_n), __CPROVER_object_whole(vg_mc_seq), vg_seq)
__CPROVER_ensures(vg_mc_calls == __CPROVER_old(vg_mc_calls) + 1 && vg_seq == __CPROVER_old(vg_seq) + 1)
__CPROVER_ensures(vg_mc_src[__CPROVER_old(vg_mc_calls)] == src && vg_mc_n[__CPROVER_old(vg_mc_calls)] == n && vg_mc_seq[__CPROVER_old(vg_mc_calls)] == vg_seq)
__CPROVER_ensures(vg_k < 2 && vg_k != __CPROVER_old(vg_mc_calls) ==> (vg_mc_src[vg_k] == __CPROVER_old(vg_mc_src[vg_k]) && vg_mc_n[vg_k] == __CPROVER_old(vg_mc_n[vg_k]) && vg_mc_seq[vg_k] == __CPROVER_old(vg_mc_seq[vg_k])))
;
void ubuf_reset__cap(ubuf *u)
__CPROVER_requires(vg_reset_calls == 0)
__CPROVER_assigns(u->_n, vg_reset_calls, vg_reset_seq, vg_reset_u, vg_seq)
__CPROVER_ensures(u->_n == 0 && vg_reset_calls == 1 && vg_reset_u == u && vg_seq == __CPROVER_old(vg_seq) + 1 && vg_reset_seq == vg_seq)
;
void ubuf_append__cap(ubuf *u, uint8_t const *elems, size_t n)
__CPROVER_requires(vg_app_calls == 0)
__CPROVER_assigns(u->_n, vg_app_calls, vg_app_seq, vg_app_src, vg_app_n, vg_app_u, vg_seq)
__CPROVER_ensures(u->_n == __CPROVER_old(u->_n) + n && vg_app_calls == 1 && vg_app_src == elems && vg_app_n == n && vg_app_u == u && vg_seq == __CPROVER_old(vg_seq) + 1 && vg_app_seq == vg_seq)
;

#define VG_OLD_LAST __CPROVER_old(b->last_key->_n)
#define VG_SHARED ((size_t)vg_ve_val[0])
#define VG_RESTART (__CPROVER_old(b->counter) == b->block_restart_interval)
void block_builder_add__spec(struct block_builder *b, const uint8_t *key, size_t len_key, const uint8_t *val, size_t len_val)
__CPROVER_requires(__CPROVER_is_fresh(b, sizeof(*b)) && __CPROVER_is_fresh(b->buf, sizeof(ubuf)) && __CPROVER_is_fresh(b->last_key, sizeof(ubuf)) && __CPROVER_is_fresh(b->restarts, sizeof(uint64_vec)))
__CPROVER_requires(b->counter <= b->block_restart_interval && !b->finished)
__CPROVER_requires(len_key <= UINT32_MAX && len_val <= UINT32_MAX && b->last_key->_n <= UINT32_MAX && b->buf->_n <= ((size_t)1 << 50) && b->restarts->_n <= ((size_t)1 << 40))
__CPROVER_requires(__CPROVER_is_fresh(b->last_key->_v, b->last_key->_n + 1) && __CPROVER_is_fresh(key, len_key + 1))
__CPROVER_requires(vg_seq == 0 && vg_ra_calls == 0 && vg_rsv_calls == 0 && vg_adv_calls == 0 && vg_ve_calls == 0 && vg_mc_calls == 0 && vg_reset_calls == 0 && vg_app_calls == 0)
__CPROVER_assigns(b->counter, b->buf->_n, b->last_key->_n, b->restarts->_n, vg_seq, vg_ra_calls, vg_ra_val, vg_ra_vec, vg_rsv_calls, vg_rsv_n, vg_rsv_u, vg_rsv_seq, vg_adv_calls,
                  __CPROVER_object_whole(vg_adv_x), __CPROVER_object_whole(vg_adv_seq), vg_ve_calls, __CPROVER_object_whole(vg_ve_val), __CPROVER_object_whole(vg_ve_seq),
                  vg_mc_calls, __CPROVER_object_whole(vg_mc_src), __CPROVER_object_whole(vg_mc_n), __CPROVER_object_whole(vg_mc_seq),
                  vg_reset_calls, vg_reset_seq, vg_reset_u, vg_app_calls, vg_app_seq, vg_app_src, vg_app_n, vg_app_u)
/* restart cadence: a restart point is recorded exactly when restart-interval entries have been added since the last one; it
 * is the offset at which this entry starts */
__CPROVER_ensures(vg_ra_calls == (VG_RESTART ? 1 : 0))
__CPROVER_ensures(VG_RESTART ==> (vg_ra_vec == b->restarts && vg_ra_val == __CPROVER_old(b->buf->_n) && b->restarts->_n == __CPROVER_old(b->restarts->_n) + 1 && b->counter == 1))
__CPROVER_ensures(!VG_RESTART ==> (b->restarts->_n == __CPROVER_old(b->restarts->_n) && b->counter == __CPROVER_old(b->counter) + 1))
/* the entry header: shared, non_shared, value length -- three varints, in that order */
__CPROVER_ensures(vg_ve_calls == 3 && vg_ve_seq[0] < vg_ve_seq[1] && vg_ve_seq[1] < vg_ve_seq[2] && vg_ve_val[1] == len_key - VG_SHARED && vg_ve_val[2] == len_val)
/* shared = 0 at a restart point, otherwise the LONGEST common prefix with the previous key */
__CPROVER_ensures(VG_RESTART ==> VG_SHARED == 0)
__CPROVER_ensures(VG_SHARED <= len_key && VG_SHARED <= VG_OLD_LAST)
__CPROVER_ensures(vg_k < VG_SHARED ==> b->last_key->_v[vg_k] == key[vg_k])
__CPROVER_ensures(!VG_RESTART ==> (VG_SHARED == len_key || VG_SHARED == VG_OLD_LAST || b->last_key->_v[VG_SHARED] != key[VG_SHARED]))
/* then the key suffix and the value are copied, in that order, each directly after the preceding piece */
__CPROVER_ensures(vg_mc_calls == 2 && vg_mc_src[0] == key + VG_SHARED && vg_mc_n[0] == len_key - VG_SHARED && vg_mc_src[1] == val && vg_mc_n[1] == len_val && vg_ve_seq[2] < vg_mc_seq[0] && vg_mc_seq[0] < vg_mc_seq[1])
__CPROVER_ensures(vg_adv_calls == 5 && vg_adv_x[0] == vg_len32(vg_ve_val[0]) && vg_adv_x[1] == vg_len32(vg_ve_val[1]) && vg_adv_x[2] == vg_len32(vg_ve_val[2]) && vg_adv_x[3] == vg_mc_n[0] && vg_adv_x[4] == vg_mc_n[1])
__CPROVER_ensures(vg_ve_seq[0] < vg_adv_seq[0] && vg_adv_seq[0] < vg_ve_seq[1] && vg_ve_seq[1] < vg_adv_seq[1] && vg_adv_seq[1] < vg_ve_seq[2] && vg_ve_seq[2] < vg_adv_seq[2]
                  && vg_adv_seq[2] < vg_mc_seq[0] && vg_mc_seq[0] < vg_adv_seq[3] && vg_adv_seq[3] < vg_mc_seq[1] && vg_mc_seq[1] < vg_adv_seq[4])
/* room is reserved before anything is written, for at least the bytes written */
__CPROVER_ensures(vg_rsv_calls == 1 && vg_rsv_u == b->buf && vg_rsv_seq < vg_ve_seq[0] && vg_rsv_n >= vg_adv_x[0] + vg_adv_x[1] + vg_adv_x[2] + vg_adv_x[3] + vg_adv_x[4])
/* the block grows by exactly header + key suffix + value (this is what the writer's block-size gate relies on) */
__CPROVER_ensures(b->buf->_n == __CPROVER_old(b->buf->_n) + vg_len32(vg_ve_val[0]) + vg_len32(vg_ve_val[1]) + vg_len32(vg_ve_val[2]) + (len_key - VG_SHARED) + len_val)
/* the remembered key becomes this key */
__CPROVER_ensures(vg_reset_calls == 1 && vg_app_calls == 1 && vg_reset_u == b->last_key && vg_app_u == b->last_key && vg_reset_seq < vg_app_seq && vg_app_src == key && vg_app_n == len_key && b->last_key->_n == len_key && vg_mc_seq[1] < vg_reset_seq)
;
void h_bb_add_dfcc(void)
{
	struct block_builder *b; const uint8_t *k, *v; size_t lk, lv;
	block_builder_add(b, k, lk, v, lv);
	VG_REACH("block_builder_add returns");
}
