/* C05 / C18: merger_get / merger_get_prefix / merger_get_range / merger_iter (real merger.c + real libmy/heap.c):
 * one bounded iterator per source with exactly the caller's bounds, sources without result skipped, NULL iff no source
 * yielded an entry, everything released on the NULL path and by merger_iter_free. */
#include "mtbl/merger.c"
#include "libmy/heap.c"
#include "spec/ghost.h"
/* vector growth is a cut point (R12): the heap's vector is created with room for one element (heap_init), so paths on which
 * two sources yield an entry end at the second heap_push; the per-source argument capture happens before that point */
void *realloc(void *p, size_t n) { __CPROVER_assume(0); return p; }
int memcmp(const void *a, const void *b, size_t n) { VG_A(n <= 1, "memcmp length <= 1 in this capped harness"); if (n == 0) return 0; return (int)((const unsigned char *)a)[0] - (int)((const unsigned char *)b)[0]; }

#define NS 2
struct mtbl_source { unsigned s; };
struct mtbl_iter { unsigned s; unsigned nexts; _Bool alive; };
static struct mtbl_source SRC[NS]; static struct mtbl_iter SIT[NS];
static _Bool vg_src_null[NS], vg_src_empty[NS];      /* lookup yields no iterator / an iterator without entries */
static unsigned vg_kind[NS]; static const uint8_t *vg_k0[NS], *vg_k1[NS]; static size_t vg_l0[NS], vg_l1[NS]; static unsigned vg_calls[NS];
static int vg_iters_live; static uint8_t vg_key[NS]; static uint8_t vg_val[NS];
static struct mtbl_iter *vg_mk(const struct mtbl_source *s, unsigned kind, const uint8_t *k0, size_t l0, const uint8_t *k1, size_t l1)
{
	unsigned i = s->s; vg_calls[i]++; vg_kind[i] = kind; vg_k0[i] = k0; vg_l0[i] = l0; vg_k1[i] = k1; vg_l1[i] = l1;
	if (kind != 0 && vg_src_null[i]) return NULL;
	SIT[i].s = i; SIT[i].nexts = 0; SIT[i].alive = 1; vg_iters_live++;
	return &SIT[i];
}
struct mtbl_iter *mtbl_source_iter(const struct mtbl_source *s) { return vg_mk(s, 0, NULL, 0, NULL, 0); }
struct mtbl_iter *mtbl_source_get(const struct mtbl_source *s, const uint8_t *k, size_t l) { return vg_mk(s, 1, k, l, NULL, 0); }
struct mtbl_iter *mtbl_source_get_prefix(const struct mtbl_source *s, const uint8_t *k, size_t l) { return vg_mk(s, 2, k, l, NULL, 0); }
struct mtbl_iter *mtbl_source_get_range(const struct mtbl_source *s, const uint8_t *k0, size_t l0, const uint8_t *k1, size_t l1) { return vg_mk(s, 3, k0, l0, k1, l1); }
mtbl_res mtbl_iter_next(struct mtbl_iter *it, const uint8_t **k, size_t *lk, const uint8_t **v, size_t *lv)
{
	if (it == NULL) return mtbl_res_failure;
	if (vg_src_empty[it->s] || it->nexts++ > 0) return mtbl_res_failure;
	*k = &vg_key[it->s]; *lk = 1; *v = &vg_val[it->s]; *lv = 1; return mtbl_res_success;
}
mtbl_res mtbl_iter_seek(struct mtbl_iter *it, const uint8_t *k, size_t l) { return mtbl_res_success; }
void mtbl_iter_destroy(struct mtbl_iter **it) { if (*it) { (*it)->alive = 0; vg_iters_live--; *it = NULL; } }
static void *vg_outer_clos; static unsigned vg_outer_made;
struct mtbl_iter *mtbl_iter_init(mtbl_iter_seek_func s, mtbl_iter_next_func n, mtbl_iter_free_func f, void *clos) { static struct mtbl_iter o; vg_outer_clos = clos; vg_outer_made++; return &o; }
struct mtbl_source *mtbl_source_init(mtbl_source_iter_func a, mtbl_source_get_func b, mtbl_source_get_prefix_func c, mtbl_source_get_range_func d, mtbl_source_free_func e, void *clos) { return malloc(sizeof(struct mtbl_source)); }
void mtbl_source_destroy(struct mtbl_source **s) { if (*s) { free(*s); *s = NULL; } }

void h_merger_lookup(void)
{
	struct mtbl_merger *m = malloc(sizeof(*m));
	m->opt.merge = NULL; m->opt.merge_clos = NULL; m->opt.dupsort = NULL; m->opt.dupsort_clos = NULL; m->source = NULL;
	m->sources = malloc(sizeof(source_vec)); m->sources->_n = 0; m->sources->_n_alloced = 4; m->sources->_hint = 4; m->sources->_v = malloc(4 * sizeof(void *)); m->sources->_p = m->sources->_v;
	unsigned in_ns = nondet_u32(); __CPROVER_assume(in_ns <= NS);
	for (unsigned i = 0; i < NS; i++) { SRC[i].s = i; vg_src_null[i] = nondet_bool(); vg_src_empty[i] = nondet_bool(); vg_key[i] = nondet_u8(); if (i < in_ns) mtbl_merger_add_source(m, &SRC[i]); }
	uint8_t in_k0[1] = { nondet_u8() }, in_k1[1] = { nondet_u8() };
	unsigned in_kind = nondet_u32(); __CPROVER_assume(in_kind <= 3);
	struct mtbl_iter *it;
	if (in_kind == 0) it = merger_iter(m); else if (in_kind == 1) it = merger_get(m, in_k0, 1); else if (in_kind == 2) it = merger_get_prefix(m, in_k0, 1); else it = merger_get_range(m, in_k0, 1, in_k1, 1);
	VG_REACH("merger lookup returns");
	unsigned yielded = 0;
	for (unsigned i = 0; i < NS; i++) if (i < in_ns) {
		VG_P("C05", vg_calls[i] == 1, "every source is asked exactly once");
		if (in_kind == 0) VG_P("C05,C04", vg_kind[i] == 0, "a full iteration opens a full iterator on every source");
		if (in_kind == 1) VG_P("C05", vg_kind[i] == 3 && vg_k0[i] == in_k0 && vg_l0[i] == 1 && vg_k1[i] == in_k0 && vg_l1[i] == 1, "an exact lookup asks every source for the range [key, key]");
		if (in_kind == 2) VG_P("C05", vg_kind[i] == 2 && vg_k0[i] == in_k0 && vg_l0[i] == 1, "a prefix lookup passes the caller's prefix to every source");
		if (in_kind == 3) VG_P("C05", vg_kind[i] == 3 && vg_k0[i] == in_k0 && vg_l0[i] == 1 && vg_k1[i] == in_k1 && vg_l1[i] == 1, "a range lookup passes the caller's bounds to every source");
		if (!(in_kind != 0 && vg_src_null[i]) && !vg_src_empty[i]) yielded++;
	}
	if (in_kind != 0) VG_P("C05", (it == NULL) == (yielded == 0), "a bounded lookup returns no iterator exactly when no source yielded an entry");
	if (it == NULL) { VG_P("C18", vg_iters_live == 0, "a lookup without result releases the per-source iterators it opened"); return; }
	struct merger_iter *mi = vg_outer_clos;
	VG_P("C05,C04", heap_size(mi->h) == yielded && entry_vec_size(mi->entries) == yielded, "exactly the sources that yielded an entry take part in the merge");
	merger_iter_free(mi);
	VG_P("C18", vg_iters_live == 0, "freeing the merger iterator destroys every per-source iterator, also those of sources without entries");
}
