/* C17 dispatch: libmy/crc32c.c (real) selects exactly one of the two implementations; mtbl_crc32c forwards its arguments. */
#include "libmy/crc32c.c"
#include "mtbl/crc32c_wrap.c"
#include "spec/ghost.h"
static const uint8_t *vg_buf_seen; static size_t vg_len_seen; static int vg_which; static uint32_t vg_ret;
uint32_t my_crc32c_slicing(const uint8_t *b, size_t n) { vg_which = 1; vg_buf_seen = b; vg_len_seen = n; vg_ret = nondet_u32(); return vg_ret; }
uint32_t my_crc32c_sse42(const uint8_t *b, size_t n) { vg_which = 2; vg_buf_seen = b; vg_len_seen = n; vg_ret = nondet_u32(); return vg_ret; }
bool my_crc32c_sse42_supported(void) { return nondet_bool(); }
void h_crc_dispatch(void)
{
	uint8_t in_b[4]; size_t in_n = nondet_size();
	_Bool in_ctor_ran = nondet_bool();
	if (in_ctor_ran) my_crc32c_runtime_detection();      /* the constructor may or may not have run before the first call */
	uint32_t r = mtbl_crc32c(in_b, in_n);
	VG_REACH("mtbl_crc32c returns");
	VG_P("C17", (vg_which == 1 || vg_which == 2) && vg_buf_seen == in_b && vg_len_seen == in_n && r == vg_ret, "mtbl_crc32c returns what the selected implementation computes over exactly the caller's buffer");
	VG_P("C17", my_crc32c == my_crc32c_slicing || my_crc32c == my_crc32c_sse42, "after the first call the function pointer names one of the two implementations");
}
