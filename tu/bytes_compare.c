/* C02 / C08: bytes_compare (mtbl-private.h, real) == unsigned bytewise lexicographic order with a proper prefix first,
 * for ALL lengths, under DFCC with memcmp replaced by its ISO C contract (7.24.4.1) in witness form. */
#include "mtbl/mtbl-private.h"
#include "spec/ghost.h"
size_t vg_k;                 /* universal index: never assigned */
size_t vg_memcmp_d;          /* witness: index of the first differing byte (== n if none) */
int memcmp__spec(const void *a, const void *b, size_t n)
__CPROVER_requires(1)
__CPROVER_assigns(vg_memcmp_d)
__CPROVER_ensures(vg_memcmp_d <= n)
__CPROVER_ensures(vg_k < vg_memcmp_d ==> ((const unsigned char *)a)[vg_k] == ((const unsigned char *)b)[vg_k])
__CPROVER_ensures(vg_memcmp_d == n ==> __CPROVER_return_value == 0)
__CPROVER_ensures(vg_memcmp_d < n ==> (((const unsigned char *)a)[vg_memcmp_d] != ((const unsigned char *)b)[vg_memcmp_d] && __CPROVER_return_value != 0
                  && ((__CPROVER_return_value < 0) == (((const unsigned char *)a)[vg_memcmp_d] < ((const unsigned char *)b)[vg_memcmp_d]))))
;
int bytes_compare__spec(const uint8_t *a, size_t len_a, const uint8_t *b, size_t len_b)
__CPROVER_requires(len_a <= ((size_t)1 << 40) && len_b <= ((size_t)1 << 40))
__CPROVER_requires(__CPROVER_is_fresh(a, len_a) && __CPROVER_is_fresh(b, len_b))
__CPROVER_assigns(vg_memcmp_d)
__CPROVER_ensures(vg_memcmp_d <= len_a && vg_memcmp_d <= len_b)
__CPROVER_ensures(vg_k < vg_memcmp_d ==> a[vg_k] == b[vg_k])
__CPROVER_ensures((vg_memcmp_d < len_a && vg_memcmp_d < len_b) ==> (a[vg_memcmp_d] != b[vg_memcmp_d] && __CPROVER_return_value != 0 && ((__CPROVER_return_value < 0) == (a[vg_memcmp_d] < b[vg_memcmp_d]))))
__CPROVER_ensures((vg_memcmp_d == len_a || vg_memcmp_d == len_b) ==> ((__CPROVER_return_value < 0) == (len_a < len_b) && (__CPROVER_return_value == 0) == (len_a == len_b)))
;
void h_bytes_compare(void)
{
	const uint8_t *a, *b; size_t la, lb;
	int r = bytes_compare(a, la, b, lb);
	VG_REACH("bytes_compare returns");
}
