/* libmy/vector.h (through ubuf.h, real): growth and bookkeeping of the byte vector every module builds on -- the part that the
 * capped module harnesses cut off (rule R12).  Arbitrary small vector state; append / reserve / add / clip / reset / detach. */
#include <stdint.h>
#include <stddef.h>
#include <stdbool.h>
#include <assert.h>
#include "libmy/ubuf.h"
#include "spec/ghost.h"

static ubuf *vg_any(uint8_t *shadow, size_t *n)
{
	ubuf *u = malloc(sizeof(ubuf));
	u->_n_alloced = nondet_size(); u->_n = nondet_size(); u->_hint = nondet_size();
	__CPROVER_assume(u->_n_alloced >= 1 && u->_n_alloced <= 4 && u->_n <= u->_n_alloced && u->_hint >= 1 && u->_hint <= 4);
	u->_v = malloc(u->_n_alloced); u->_p = u->_v + u->_n;
	for (size_t i = 0; i < 4; i++) if (i < u->_n) shadow[i] = u->_v[i];
	*n = u->_n;
	return u;
}
void h_vector_step(void)
{
	uint8_t old[16]; size_t n0; ubuf *u = vg_any(old, &n0);
	unsigned in_op = nondet_u32(); __CPROVER_assume(in_op <= 5);
	uint8_t in_src[6]; for (int i = 0; i < 6; i++) in_src[i] = nondet_u8();
	size_t in_k = nondet_size(); __CPROVER_assume(in_k <= 6);
	size_t in_i = nondet_size();
	VG_REACH("vector harness reachable");
	if (in_op == 0) {            /* append */
		ubuf_append(u, in_src, in_k);
		VG_P("C01,C09", ubuf_size(u) == n0 + in_k && u->_n_alloced >= u->_n && u->_p == u->_v + u->_n, "append: size grows by the appended length, capacity suffices, write pointer follows");
		if (in_i < n0) VG_P("C01,C09", ubuf_data(u)[in_i] == old[in_i], "append keeps the old bytes (across reallocation)");
		if (in_i < in_k) VG_P("C01,C09", ubuf_data(u)[n0 + in_i] == in_src[in_i], "append copies the new bytes behind the old ones");
	} else if (in_op == 1) {     /* reserve then advance (the block builder's pattern) */
		ubuf_reserve(u, in_k);
		VG_P("C01,C09", u->_n_alloced - u->_n >= in_k && ubuf_size(u) == n0 && ubuf_ptr(u) == ubuf_data(u) + n0, "reserve guarantees room for the requested bytes behind the content and moves nothing");
		if (in_i < n0) VG_P("C01,C09", ubuf_data(u)[in_i] == old[in_i], "reserve keeps the old bytes (across reallocation)");
		for (size_t j = 0; j < 6; j++) if (j < in_k) ubuf_ptr(u)[j] = in_src[j];
		ubuf_advance(u, in_k);
		VG_P("C01,C09", ubuf_size(u) == n0 + in_k, "advance accounts for the bytes written through the write pointer");
	} else if (in_op == 2) {     /* add one element */
		ubuf_add(u, in_src[0]);
		VG_P("C01,C09", ubuf_size(u) == n0 + 1 && ubuf_value(u, n0) == in_src[0] && u->_n_alloced >= u->_n, "add appends one element");
		if (in_i < n0) VG_P("C01,C09", ubuf_data(u)[in_i] == old[in_i], "add keeps the old elements (across reallocation)");
	} else if (in_op == 3) {     /* clip */
		ubuf_clip(u, in_k);
		VG_P("C01,C09", ubuf_size(u) == (in_k < n0 ? in_k : n0) && u->_p == u->_v + u->_n, "clip shortens to at most the given length and never lengthens");
		if (in_i < ubuf_size(u)) VG_P("C01,C09", ubuf_data(u)[in_i] == old[in_i], "clip keeps the remaining prefix");
	} else if (in_op == 4) {     /* reset */
		ubuf_reset(u);
		VG_P("C01,C09", ubuf_size(u) == 0 && u->_n_alloced >= 1 && u->_n_alloced <= (u->_hint > 4 ? u->_hint : 4) && u->_p == u->_v, "reset empties the vector (shrinking back to the hint)");
	} else {                     /* detach */
		uint8_t *out; size_t outn; uint8_t *v0 = u->_v;
		ubuf_detach(u, &out, &outn);
		VG_P("C01,C09", out == v0 && outn == n0 && ubuf_size(u) == 0 && u->_v != out && u->_n_alloced == u->_hint, "detach hands over the buffer with its length and leaves a fresh empty vector");
		free(out);
	}
	ubuf_destroy(&u);
}
