/* C09 / C11: block_builder_finish (mtbl/block_builder.c, real) under DFCC with a loop contract, for ANY number of restart
 * points and ANY block size -- the 32-bit and the 64-bit restart array regimes alike (the switch is at UINT32_MAX bytes of
 * entries, a block no test can allocate).  The fixed-width encoders and the vector operations are replaced by capture
 * contracts; vg_k is the universal index of a restart point.  Postconditions: every restart offset is handed to the encoder of
 * the regime's width, in order, none truncated; then the count as 32 bits; the block handed out is exactly
 * entries + restart array + count bytes long (= block_builder_current_size_estimate, which the writer's gate relies on). */
#include "mtbl/block_builder.c"
#include "spec/ghost.h"

size_t vg_k;                                   /* universal index: never assigned */
struct { unsigned long calls; uint32_t val_k, last; } vg_f32;      /* mtbl_fixed_encode32: value of call number vg_k, value of the last call */
struct { unsigned long calls; uint64_t val_k; } vg_f64;
struct { unsigned long calls; size_t total; } vg_adv;
struct { unsigned calls; size_t n; ubuf *u; unsigned long at_f32, at_f64; } vg_rsv;
struct { unsigned calls; ubuf *u; uint8_t **out; size_t *outsz; size_t n_at_call; } vg_det;

size_t mtbl_fixed_encode32__cap(uint8_t *dst, uint32_t v)
__CPROVER_requires(1)
__CPROVER_assigns(__CPROVER_object_whole(&vg_f32))
__CPROVER_ensures(vg_f32.calls == __CPROVER_old(vg_f32.calls) + 1 && vg_f32.last == v && vg_f32.val_k == (__CPROVER_old(vg_f32.calls) == vg_k ? v : __CPROVER_old(vg_f32.val_k)))
__CPROVER_ensures(__CPROVER_return_value == 4)
;
size_t mtbl_fixed_encode64__cap(uint8_t *dst, uint64_t v)
__CPROVER_requires(1)
__CPROVER_assigns(__CPROVER_object_whole(&vg_f64))
__CPROVER_ensures(vg_f64.calls == __CPROVER_old(vg_f64.calls) + 1 && vg_f64.val_k == (__CPROVER_old(vg_f64.calls) == vg_k ? v : __CPROVER_old(vg_f64.val_k)))
__CPROVER_ensures(__CPROVER_return_value == 8)
;
void ubuf_advance__cap(ubuf *u, size_t x)
__CPROVER_requires(1)
__CPROVER_assigns(u->_n, __CPROVER_object_whole(&vg_adv))
__CPROVER_ensures(u->_n == __CPROVER_old(u->_n) + x && vg_adv.calls == __CPROVER_old(vg_adv.calls) + 1 && vg_adv.total == __CPROVER_old(vg_adv.total) + x)
;
void ubuf_reserve__cap(ubuf *u, size_t n)
__CPROVER_requires(vg_rsv.calls == 0)
__CPROVER_assigns(__CPROVER_object_whole(&vg_rsv))
__CPROVER_ensures(vg_rsv.calls == 1 && vg_rsv.n == n && vg_rsv.u == u && vg_rsv.at_f32 == vg_f32.calls && vg_rsv.at_f64 == vg_f64.calls)
;
void ubuf_detach__cap(ubuf *u, uint8_t **out, size_t *outsz)
__CPROVER_requires(vg_det.calls == 0)
__CPROVER_assigns(__CPROVER_object_whole(&vg_det), *out, *outsz, u->_n)
__CPROVER_ensures(vg_det.calls == 1 && vg_det.u == u && vg_det.out == out && vg_det.outsz == outsz && vg_det.n_at_call == __CPROVER_old(u->_n) && *outsz == __CPROVER_old(u->_n) && u->_n == 0)
;
#define VG_N (b->restarts->_n)
#define VG_R64 (__CPROVER_old(b->buf->_n) > UINT32_MAX)
void block_builder_finish__spec(struct block_builder *b, uint8_t **buf, size_t *bufsz)
__CPROVER_requires(__CPROVER_is_fresh(b, sizeof(*b)) && __CPROVER_is_fresh(b->buf, sizeof(ubuf)) && __CPROVER_is_fresh(b->restarts, sizeof(uint64_vec)))
__CPROVER_requires(__CPROVER_is_fresh(buf, sizeof(*buf)) && __CPROVER_is_fresh(bufsz, sizeof(*bufsz)))
__CPROVER_requires(b->restarts->_n >= 1 && b->restarts->_n <= ((size_t)1 << 28) && b->buf->_n <= ((size_t)1 << 50))
__CPROVER_requires(__CPROVER_is_fresh(b->restarts->_v, b->restarts->_n * sizeof(uint64_t)))
/* builder invariant: a restart point is the offset of an entry inside the entry bytes */
__CPROVER_requires(vg_k < b->restarts->_n ==> b->restarts->_v[vg_k] <= b->buf->_n)
__CPROVER_requires(vg_f32.calls == 0 && vg_f64.calls == 0 && vg_adv.calls == 0 && vg_adv.total == 0 && vg_rsv.calls == 0 && vg_det.calls == 0)
__CPROVER_assigns(b->finished, b->buf->_n, *buf, *bufsz, __CPROVER_object_whole(&vg_f32), __CPROVER_object_whole(&vg_f64), __CPROVER_object_whole(&vg_adv), __CPROVER_object_whole(&vg_rsv), __CPROVER_object_whole(&vg_det))
/* which restart array: 32-bit offsets unless the entries exceed UINT32_MAX bytes */
__CPROVER_ensures(!VG_R64 ==> (vg_f64.calls == 0 && vg_f32.calls == VG_N + 1))
__CPROVER_ensures(VG_R64 ==> (vg_f64.calls == VG_N && vg_f32.calls == 1))
/* restart point number vg_k is encoded as call number vg_k, with its full value */
__CPROVER_ensures((!VG_R64 && vg_k < VG_N) ==> (uint64_t)vg_f32.val_k == b->restarts->_v[vg_k])
__CPROVER_ensures((VG_R64 && vg_k < VG_N) ==> vg_f64.val_k == b->restarts->_v[vg_k])
/* the last thing encoded is the number of restart points */
__CPROVER_ensures(vg_f32.last == (uint32_t)VG_N)
/* size of the block handed out = entries + restart array + count = the size estimate */
__CPROVER_ensures(vg_det.calls == 1 && vg_det.u == b->buf && vg_det.out == buf && vg_det.outsz == bufsz)
__CPROVER_ensures(*bufsz == __CPROVER_old(b->buf->_n) + VG_N * (VG_R64 ? 8 : 4) + 4)
__CPROVER_ensures(vg_adv.total == VG_N * (VG_R64 ? 8 : 4) + 4)
/* room for all of it is reserved before anything is encoded */
__CPROVER_ensures(vg_rsv.calls == 1 && vg_rsv.u == b->buf && vg_rsv.at_f32 == 0 && vg_rsv.at_f64 == 0 && vg_rsv.n >= vg_adv.total)
__CPROVER_ensures(b->finished)
;
void h_bb_finish_dfcc(void)
{
	struct block_builder *b; uint8_t **o; size_t *os;
	block_builder_finish(b, o, os);
	VG_REACH("block_builder_finish returns");
}
