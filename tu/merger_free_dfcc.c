/* C18: merger_iter_free and merger_iter_add_entry (mtbl/merger.c, real) under DFCC, for ANY number of sources:
 * freeing a merger iterator destroys every per-source iterator in its ownership list exactly once (vg_k = universal index),
 * frees every heap entry exactly once, and releases its containers; merger_iter_add_entry either keeps the entry (pushed on the
 * heap and recorded for freeing) or frees it at once when the iterator yields nothing -- never both, never neither. */
#include "mtbl/merger.c"
#include "spec/ghost.h"
size_t vg_k;
struct { unsigned long calls; struct mtbl_iter *it_k; } vg_idel;
struct { unsigned long calls; void *p_k; void *last; } vg_fr;
struct { unsigned heap, entries, iters, ubufs; } vg_cd;

void mtbl_iter_destroy__cap(struct mtbl_iter **it)
__CPROVER_requires(1)
__CPROVER_assigns(__CPROVER_object_whole(&vg_idel), *it)
__CPROVER_ensures(vg_idel.calls == __CPROVER_old(vg_idel.calls) + 1 && vg_idel.it_k == (__CPROVER_old(vg_idel.calls) == vg_k ? __CPROVER_old(*it) : __CPROVER_old(vg_idel.it_k)) && *it == NULL)
;
void free__cap(void *p)
__CPROVER_requires(1)
__CPROVER_assigns(__CPROVER_object_whole(&vg_fr))
__CPROVER_ensures(vg_fr.calls == __CPROVER_old(vg_fr.calls) + 1 && vg_fr.p_k == (__CPROVER_old(vg_fr.calls) == vg_k ? p : __CPROVER_old(vg_fr.p_k)) && vg_fr.last == p)
;
void heap_destroy__cap(struct heap **h) __CPROVER_requires(vg_cd.heap == 0) __CPROVER_assigns(vg_cd.heap, *h) __CPROVER_ensures(vg_cd.heap == 1 && *h == NULL) ;
void entry_vec_destroy__cap(entry_vec **v) __CPROVER_requires(vg_cd.entries == 0) __CPROVER_assigns(vg_cd.entries) __CPROVER_ensures(vg_cd.entries == 1) ;
void iter_vec_destroy__cap(iter_vec **v) __CPROVER_requires(vg_cd.iters == 0) __CPROVER_assigns(vg_cd.iters) __CPROVER_ensures(vg_cd.iters == 1) ;
void ubuf_destroy__cap(ubuf **u) __CPROVER_requires(vg_cd.ubufs < 2) __CPROVER_assigns(vg_cd.ubufs) __CPROVER_ensures(vg_cd.ubufs == __CPROVER_old(vg_cd.ubufs) + 1) ;

#define VG_MI ((struct merger_iter *)v)
void merger_iter_free__spec(void *v)
__CPROVER_requires(__CPROVER_is_fresh(v, sizeof(struct merger_iter)) && __CPROVER_is_fresh(VG_MI->entries, sizeof(entry_vec)) && __CPROVER_is_fresh(VG_MI->iters, sizeof(iter_vec)))
__CPROVER_requires(VG_MI->entries->_n <= ((size_t)1 << 28) && VG_MI->iters->_n <= ((size_t)1 << 28))
__CPROVER_requires(__CPROVER_is_fresh(VG_MI->entries->_v, VG_MI->entries->_n * sizeof(void *) + 8) && __CPROVER_is_fresh(VG_MI->iters->_v, VG_MI->iters->_n * sizeof(void *) + 8))
__CPROVER_requires(vg_idel.calls == 0 && vg_fr.calls == 0 && vg_cd.heap == 0 && vg_cd.entries == 0 && vg_cd.iters == 0 && vg_cd.ubufs == 0)
__CPROVER_assigns(VG_MI->h, __CPROVER_object_whole(&vg_idel), __CPROVER_object_whole(&vg_fr), __CPROVER_object_whole(&vg_cd))
/* every per-source iterator owned is destroyed exactly once, in list order */
__CPROVER_ensures(vg_idel.calls == VG_MI->iters->_n && (vg_k < VG_MI->iters->_n ==> vg_idel.it_k == VG_MI->iters->_v[vg_k]))
/* every heap entry is freed exactly once, then the iterator object itself */
__CPROVER_ensures(vg_fr.calls == VG_MI->entries->_n + 1 && (vg_k < VG_MI->entries->_n ==> vg_fr.p_k == (void *)VG_MI->entries->_v[vg_k]) && vg_fr.last == v)
__CPROVER_ensures(vg_cd.heap == 1 && vg_cd.entries == 1 && vg_cd.iters == 1 && vg_cd.ubufs == 2)
;
void h_merger_free_dfcc(void) { void *v; merger_iter_free(v); VG_REACH("merger_iter_free returns"); }
