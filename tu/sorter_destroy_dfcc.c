/* C18: mtbl_sorter_destroy (mtbl/sorter.c, real) under DFCC with loop contracts, for ANY number of buffered entries and chunk
 * readers -- including readers that arrive LATE: the result handler is joined first, and its contract lets it append any number
 * of readers to the chunk list while it drains the jobs still in flight (this is what a pooled sorter destroyed early goes
 * through).  Every buffered entry is freed once, every reader in the list AS IT IS AFTER THE JOIN is destroyed once, the
 * containers, the temporary directory name and the sorter itself are released. */
#include "mtbl/sorter.c"
#include "spec/ghost.h"
size_t vg_k;
unsigned vg_seq;
size_t vg_rmax;                            /* capacity of the chunk list object in this run (any value) */
reader_vec *vg_readers;                    /* the sorter's chunk list (what the result callback appends to) */
struct { unsigned calls, seq; } vg_rh;
struct { unsigned long calls; void *p_k; void *last, *before_last; unsigned first_seq; } vg_fr;
struct { unsigned long calls; struct mtbl_reader *r_k; unsigned first_seq; } vg_rd;
struct { unsigned entries, readers; } vg_cd;

void result_handler_destroy__cap(struct result_handler **rh)
__CPROVER_requires(vg_rh.calls == 0)
__CPROVER_assigns(__CPROVER_object_whole(&vg_rh), vg_seq, *rh, vg_readers->_n)
/* late results: the callback may have appended readers */
__CPROVER_ensures(vg_rh.calls == 1 && vg_seq == __CPROVER_old(vg_seq) + 1 && vg_rh.seq == vg_seq && *rh == NULL && vg_readers->_n >= __CPROVER_old(vg_readers->_n) && vg_readers->_n <= vg_rmax)
;
void free__cap(void *p)
__CPROVER_requires(1)
__CPROVER_assigns(__CPROVER_object_whole(&vg_fr), vg_seq)
__CPROVER_ensures(vg_fr.calls == __CPROVER_old(vg_fr.calls) + 1 && vg_fr.p_k == (__CPROVER_old(vg_fr.calls) == vg_k ? p : __CPROVER_old(vg_fr.p_k)) && vg_fr.last == p && vg_fr.before_last == __CPROVER_old(vg_fr.last)
                  && vg_seq == __CPROVER_old(vg_seq) + 1 && vg_fr.first_seq == (__CPROVER_old(vg_fr.calls) == 0 ? vg_seq : __CPROVER_old(vg_fr.first_seq)))
;
void mtbl_reader_destroy__cap(struct mtbl_reader **r)
__CPROVER_requires(1)
__CPROVER_assigns(__CPROVER_object_whole(&vg_rd), vg_seq, *r)
__CPROVER_ensures(vg_rd.calls == __CPROVER_old(vg_rd.calls) + 1 && vg_rd.r_k == (__CPROVER_old(vg_rd.calls) == vg_k ? __CPROVER_old(*r) : __CPROVER_old(vg_rd.r_k)) && *r == NULL
                  && vg_seq == __CPROVER_old(vg_seq) + 1 && vg_rd.first_seq == (__CPROVER_old(vg_rd.calls) == 0 ? vg_seq : __CPROVER_old(vg_rd.first_seq)))
;
void entry_vec_destroy__cap(entry_vec **v) __CPROVER_requires(vg_cd.entries == 0) __CPROVER_assigns(vg_cd.entries) __CPROVER_ensures(vg_cd.entries == 1) ;
void reader_vec_destroy__cap(reader_vec **v) __CPROVER_requires(vg_cd.readers == 0) __CPROVER_assigns(vg_cd.readers) __CPROVER_ensures(vg_cd.readers == 1) ;

#define S (*s)
void mtbl_sorter_destroy__spec(struct mtbl_sorter **s)
__CPROVER_requires(__CPROVER_is_fresh(s, sizeof(*s)) && __CPROVER_is_fresh(S, sizeof(struct mtbl_sorter)) && __CPROVER_is_fresh(S->vec, sizeof(entry_vec)) && __CPROVER_is_fresh(S->readers, sizeof(reader_vec)) && vg_readers == S->readers)
__CPROVER_requires(S->vec->_n <= ((size_t)1 << 28) && vg_rmax <= ((size_t)1 << 28) && S->readers->_n <= vg_rmax)
__CPROVER_requires(__CPROVER_is_fresh(S->vec->_v, S->vec->_n * sizeof(void *) + 8) && __CPROVER_is_fresh(S->readers->_v, vg_rmax * sizeof(void *) + 8))
__CPROVER_requires(vg_seq == 0 && vg_rh.calls == 0 && vg_fr.calls == 0 && vg_rd.calls == 0 && vg_cd.entries == 0 && vg_cd.readers == 0)
__CPROVER_assigns(*s, S->rhandler, S->readers->_n, vg_seq, __CPROVER_object_whole(&vg_rh), __CPROVER_object_whole(&vg_fr), __CPROVER_object_whole(&vg_rd), __CPROVER_object_whole(&vg_cd))
/* the result handler is joined before anything is released */
__CPROVER_ensures(vg_rh.calls == 1 && (vg_fr.calls == 0 || vg_rh.seq < vg_fr.first_seq) && (vg_rd.calls == 0 || vg_rh.seq < vg_rd.first_seq))
/* every reader of the list as it stands after the join -- late ones included -- is destroyed exactly once, in order */
__CPROVER_ensures(vg_rd.calls == vg_readers->_n && (vg_k < vg_readers->_n ==> vg_rd.r_k == vg_readers->_v[vg_k]))
/* every buffered entry is freed exactly once; then the temporary directory name and the sorter itself */
__CPROVER_ensures(vg_fr.calls == __CPROVER_old(S->vec->_n) + 2 && (vg_k < __CPROVER_old(S->vec->_n) ==> vg_fr.p_k == (void *)__CPROVER_old(S->vec)->_v[vg_k]))
__CPROVER_ensures(vg_fr.last == (void *)__CPROVER_old(*s) && vg_fr.before_last == (void *)__CPROVER_old((*s)->opt.tmp_dname) && vg_cd.entries == 1 && vg_cd.readers == 1 && *s == NULL)
;
void h_sorter_destroy_dfcc(void) { struct mtbl_sorter **s; mtbl_sorter_destroy(s); VG_REACH("mtbl_sorter_destroy returns"); }
