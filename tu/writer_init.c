/* C08 / C18: mtbl_writer_init / mtbl_writer_init_fd (real writer.c): exclusive create, failure leaves nothing behind,
 * the writer starts at the descriptor's current offset (foreign prefix) with zeroed statistics. */
#include "mtbl/writer.c"
#include "spec/ghost.h"
#include <stdarg.h>
static int vg_open_flags; static unsigned vg_open_calls, vg_dup_calls, vg_close_calls; static int vg_open_ret; static off_t vg_off; static int vg_fds;
int open(const char *p, int flags, ...) { vg_open_calls++; vg_open_flags = flags; if (vg_open_ret >= 0) vg_fds++; return vg_open_ret; }
int dup(int fd) { vg_dup_calls++; vg_fds++; return fd + 100; }
int close(int fd) { vg_close_calls++; vg_fds--; return 0; }
off_t lseek(int fd, off_t o, int w) { return vg_off; }
struct block_builder { int d; }; static int vg_bb_live;
struct block_builder *block_builder_init(size_t ri) { vg_bb_live++; return malloc(sizeof(struct block_builder)); }
void block_builder_destroy(struct block_builder **b) { if (*b) { vg_bb_live--; *b = NULL; } }
struct result_handler *result_handler_init(result_cb cb, void *c) { return (struct result_handler *)malloc(1); }
void result_handler_destroy(struct result_handler **r) { *r = NULL; }
void threadpool_dispatch(struct threadpool *p, struct result_handler *rh, bool o, thread_cb cb, void *a) { }
size_t block_builder_current_size_estimate(struct block_builder *b) { return 8; }
bool block_builder_empty(struct block_builder *b) { return true; }
void block_builder_add(struct block_builder *b, const uint8_t *k, size_t lk, const uint8_t *v, size_t lv) { }
void block_builder_finish(struct block_builder *b, uint8_t **buf, size_t *sz) { *buf = malloc(8); *sz = 8; }
void block_builder_reset(struct block_builder *b) { }
uint32_t mtbl_crc32c(const uint8_t *b, size_t n) { return nondet_u32(); }
mtbl_res mtbl_compress(mtbl_compression_type t, const uint8_t *i, const size_t n, uint8_t **o, size_t *on) { return mtbl_res_failure; }
mtbl_res mtbl_compress_level(mtbl_compression_type t, int l, const uint8_t *i, const size_t n, uint8_t **o, size_t *on) { return mtbl_res_failure; }
void metadata_write(const struct mtbl_metadata *m, uint8_t *buf) { }
ssize_t write(int fd, const void *b, size_t n) { return (ssize_t)n; }
int vg_errno; int *__errno_location(void) { return &vg_errno; }

void h_writer_init(void)
{
	vg_open_ret = nondet_int(); __CPROVER_assume(vg_open_ret >= -1 && vg_open_ret < 1000);
	vg_off = nondet_long(); __CPROVER_assume(vg_off >= 0);
	_Bool in_opt = nondet_bool();
	struct mtbl_writer_options o; o.compression_type = nondet_int(); o.compression_level = nondet_int(); o.block_size = nondet_size(); o.block_restart_interval = nondet_size(); o.pool = NULL;
	struct mtbl_writer *w = mtbl_writer_init("f", in_opt ? &o : NULL);
	VG_REACH("mtbl_writer_init returns");
	VG_P("C08", vg_open_calls == 1 && (vg_open_flags & (O_CREAT | O_EXCL)) == (O_CREAT | O_EXCL) && (vg_open_flags & O_ACCMODE) == O_WRONLY, "the file is created exclusively (O_CREAT|O_EXCL): an existing path makes open fail and is left untouched");
	if (vg_open_ret < 0) { VG_P("C08,C18", w == NULL && vg_dup_calls == 0 && vg_bb_live == 0 && vg_fds == 0, "if the path cannot be created exclusively the result is NULL and nothing else happened"); return; }
	VG_REACH("writer created");
	VG_P("C18", w != NULL && vg_fds == 1 && w->fd == vg_open_ret + 100, "the writer keeps exactly one descriptor (its duplicate)");
	VG_P("C10,C09", w->pending_offset == (uint64_t)vg_off && w->last_offset == (uint64_t)vg_off, "writing starts at the descriptor's current offset (bytes before it are foreign)");
	VG_P("C10", w->m.count_entries == 0 && w->m.count_data_blocks == 0 && w->m.bytes_data_blocks == 0 && w->m.bytes_keys == 0 && w->m.bytes_values == 0 && w->m.file_version == MTBL_FORMAT_V2, "statistics start at zero, format v2");
	VG_P("C10", in_opt ? (w->m.data_block_size == o.block_size && w->m.compression_algorithm == (uint64_t)o.compression_type) : (w->m.data_block_size == DEFAULT_BLOCK_SIZE && w->m.compression_algorithm == DEFAULT_COMPRESSION_TYPE), "the trailer records the configured (or default) block size and algorithm");
	VG_P("C08", ubuf_size(w->last_key) == 0 && !w->closed, "no key is remembered yet");
	mtbl_writer_destroy(&w);
	VG_P("C18", vg_fds == 0 && vg_bb_live == 0, "destroying the writer releases the descriptor and both builders");
}
