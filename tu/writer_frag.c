/* C20 bounded composition: real _mtbl_writer_write_block + real _write_all + real mtbl_varint_encode64 over a
 * write(2) model that fragments: up to VG_FAULTS events, each EINTR or a short write of any length >= 1.
 * The byte stream that reaches the descriptor must equal varint(len) || crc || payload for every fragmentation. */
#include "mtbl/writer.c"
#include "spec/ghost.h"

#define VG_STREAM_MAX 32
#ifndef VG_FAULTS
#define VG_FAULTS 2
#endif
static uint8_t vg_stream[VG_STREAM_MAX];
static size_t vg_fpos;
static unsigned vg_faults_left = VG_FAULTS;
static int vg_the_fd;
int vg_errno;
int *__errno_location(void) { return &vg_errno; }

ssize_t write(int fd, const void *buf, size_t count)
{
	VG_P("C20", fd == vg_the_fd, "writes go to the writer's descriptor");
	size_t n = count;
	if (vg_faults_left > 0 && nondet_bool()) {
		vg_faults_left--;
		if (nondet_bool()) { vg_errno = EINTR; return -1; }     /* interrupted before anything was written */
		n = nondet_size();
		__CPROVER_assume(n >= 1 && n <= count);                 /* short write */
	}
	for (size_t i = 0; i < n && i < VG_STREAM_MAX; i++)
		if (vg_fpos + i < VG_STREAM_MAX) vg_stream[vg_fpos + i] = ((const uint8_t *)buf)[i];
	vg_fpos += n;
	return (ssize_t)n;                                          /* success leaves errno alone (POSIX) */
}

void h_write_block_frag(void)
{
	struct data_block b;
	uint8_t in_data[8];
	size_t in_len = nondet_size();
	__CPROVER_assume(in_len >= 1 && in_len <= 8);
	for (int i = 0; i < 8; i++) in_data[i] = nondet_u8();
	b.data = in_data; b.len_data = in_len; b.crc = nondet_u32();
	vg_the_fd = nondet_int();
	vg_errno = nondet_int();                                    /* errno may hold anything on entry, EINTR included */
	size_t ret = _mtbl_writer_write_block(vg_the_fd, &b);
	VG_REACH("write_block returns under fragmentation");
	VG_P("C20", vg_fpos == 1 + 4 + in_len, "exactly varint(len)+4+len bytes reach the descriptor, whatever the fragmentation");
	VG_P("C20,C10,C09", ret == 1 + 4 + in_len, "write_block reports the number of bytes the block occupies in the file");
	VG_P("C20,C09", vg_stream[0] == (uint8_t)in_len, "stream starts with the varint length of the stored bytes");
	unsigned in_k = nondet_u32();
	if (in_k < 4) VG_P("C20,C09,C12", vg_stream[1 + in_k] == ((uint8_t *)&b.crc)[in_k], "then the 4 checksum bytes as stored");
	if (in_k < in_len) VG_P("C20,C09", vg_stream[5 + in_k] == in_data[in_k], "then the payload bytes, each once, in order");
}
