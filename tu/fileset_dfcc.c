/* C07: mtbl_fileset_reload and mtbl_fileset_reload_now (mtbl/fileset.c, real) under DFCC -- no bound on the number of tables,
 * handles or earlier operations: my_fileset_reload, fs_reinit_merger and the clock are capture contracts over a ghost
 * GENERATION of the shared reader set.
 *   vg_gen   generation of the shared set; my_fileset_reload bumps it exactly when it loads or unloads something
 *   vg_mgen  generation this handle's merger was built from; fs_reinit_merger sets it to vg_gen
 * Handle invariant H (assumed on entry, hence every history):  handle timestamp == shared timestamp  ==>  vg_mgen == vg_gen.
 * Clock: monotonic and never equal to a timestamp handed out before (so a timestamp identifies a generation).
 * Obligations: after either call the handle is CURRENT (timestamps equal and merger built from the current generation) unless
 * reload_now was deferred; no reload while an iterator is open, reload_now is then remembered; a reload happens exactly under
 * the interval / forced rules; whenever the generation changes the shared timestamp changes (so every other handle, dup
 * handles included, notices: its own H stays true). */
#include "mtbl/fileset.c"
#include "spec/ghost.h"

unsigned long vg_gen, vg_mgen;
struct shared_fileset *vg_sfs;
struct timespec vg_now;
struct { unsigned calls, seq; struct my_fileset *fs; } vg_rl;
struct { unsigned calls, seq_last; struct mtbl_fileset *f; } vg_ri;
struct { unsigned calls; } vg_clk;
unsigned vg_seq;

void my_fileset_reload__cap(struct my_fileset *fs)
__CPROVER_requires(vg_rl.calls == 0)
__CPROVER_assigns(__CPROVER_object_whole(&vg_rl), vg_seq, vg_gen, vg_sfs->n_loaded, vg_sfs->n_unloaded)
__CPROVER_ensures(vg_rl.calls == 1 && vg_rl.fs == fs && vg_seq == __CPROVER_old(vg_seq) + 1 && vg_rl.seq == vg_seq)
__CPROVER_ensures(vg_sfs->n_loaded >= __CPROVER_old(vg_sfs->n_loaded) && vg_sfs->n_unloaded >= __CPROVER_old(vg_sfs->n_unloaded) && vg_sfs->n_loaded <= 1000000 && vg_sfs->n_unloaded <= 1000000)
__CPROVER_ensures((vg_gen != __CPROVER_old(vg_gen)) == (vg_sfs->n_loaded > __CPROVER_old(vg_sfs->n_loaded) || vg_sfs->n_unloaded > __CPROVER_old(vg_sfs->n_unloaded)))
;
void fs_reinit_merger__cap(struct mtbl_fileset *f)
__CPROVER_requires(vg_ri.calls < 2)
__CPROVER_assigns(__CPROVER_object_whole(&vg_ri), vg_seq, vg_mgen)
__CPROVER_ensures(vg_ri.calls == __CPROVER_old(vg_ri.calls) + 1 && vg_ri.f == f && vg_mgen == vg_gen && vg_seq == __CPROVER_old(vg_seq) + 1 && vg_ri.seq_last == vg_seq)
;
void my_gettime__cap(clockid_t c, struct timespec *ts)
__CPROVER_requires(vg_clk.calls == 0)
__CPROVER_assigns(__CPROVER_object_whole(&vg_clk), *ts)
__CPROVER_ensures(vg_clk.calls == 1 && ts->tv_sec == vg_now.tv_sec && ts->tv_nsec == vg_now.tv_nsec)
;
#define VG_SAME(a, b) ((a).tv_sec == (b).tv_sec && (a).tv_nsec == (b).tv_nsec)
#define VG_COMMON_REQ \
__CPROVER_requires(__CPROVER_is_fresh(f, sizeof(*f)) && __CPROVER_is_fresh(f->shared_fs, sizeof(struct shared_fileset)) && vg_sfs == f->shared_fs && f->shared_fs->my_fs != NULL) \
__CPROVER_requires(vg_rl.calls == 0 && vg_ri.calls == 0 && vg_clk.calls == 0 && vg_seq == 0) \
/* H */ __CPROVER_requires(VG_SAME(f->fs_last, f->shared_fs->fs_last) ==> vg_mgen == vg_gen) \
/* clock: later than the last reload and different from every timestamp handed out before */ \
__CPROVER_requires(vg_now.tv_sec >= f->shared_fs->fs_last.tv_sec && vg_now.tv_sec >= 0 && f->shared_fs->fs_last.tv_sec >= 0 && !VG_SAME(vg_now, f->shared_fs->fs_last) && !VG_SAME(vg_now, f->fs_last))
#define VG_COMMON_ASSIGNS __CPROVER_assigns(f->fs_last, f->shared_fs->fs_last, f->shared_fs->reload_needed, f->shared_fs->n_loaded, f->shared_fs->n_unloaded, vg_gen, vg_mgen, vg_seq, \
                  __CPROVER_object_whole(&vg_rl), __CPROVER_object_whole(&vg_ri), __CPROVER_object_whole(&vg_clk))

void mtbl_fileset_reload__spec(struct mtbl_fileset *f)
VG_COMMON_REQ
VG_COMMON_ASSIGNS
/* the handle is current afterwards, whatever happened */
__CPROVER_ensures(VG_SAME(f->fs_last, f->shared_fs->fs_last) && vg_mgen == vg_gen)
/* pinning: no reload while any iterator on the shared fileset is open */
__CPROVER_ensures(__CPROVER_old(f->shared_fs->n_iters) > 0 ==> (vg_rl.calls == 0 && vg_gen == __CPROVER_old(vg_gen) && f->shared_fs->reload_needed == __CPROVER_old(f->shared_fs->reload_needed)))
/* when a reload happens: forced reload pending, or more than the interval elapsed (never for RELOAD_INTERVAL_NEVER) */
__CPROVER_ensures((vg_rl.calls == 1) == (__CPROVER_old(f->shared_fs->n_iters) == 0 && (__CPROVER_old(f->shared_fs->reload_needed)
                  || (f->reload_interval != MTBL_FILESET_RELOAD_INTERVAL_NEVER && vg_now.tv_sec - __CPROVER_old(f->shared_fs->fs_last.tv_sec) > (time_t)f->reload_interval))))
__CPROVER_ensures(vg_rl.calls == 1 ==> (vg_rl.fs == f->shared_fs->my_fs && !f->shared_fs->reload_needed && VG_SAME(f->shared_fs->fs_last, vg_now)))
/* a changed generation is always published through a new shared timestamp */
__CPROVER_ensures(vg_gen != __CPROVER_old(vg_gen) ==> !VG_SAME(f->shared_fs->fs_last, __CPROVER_old(f->shared_fs->fs_last)))
__CPROVER_ensures(vg_rl.calls == 0 ==> (VG_SAME(f->shared_fs->fs_last, __CPROVER_old(f->shared_fs->fs_last)) && vg_gen == __CPROVER_old(vg_gen)))
;
void mtbl_fileset_reload_now__spec(struct mtbl_fileset *f)
VG_COMMON_REQ
VG_COMMON_ASSIGNS
/* deferred while an iterator is open: remembered, nothing else happens */
__CPROVER_ensures(__CPROVER_old(f->shared_fs->n_iters) > 0 ==> (f->shared_fs->reload_needed && vg_rl.calls == 0 && vg_ri.calls == 0 && vg_gen == __CPROVER_old(vg_gen) && vg_mgen == __CPROVER_old(vg_mgen)
                  && VG_SAME(f->fs_last, __CPROVER_old(f->fs_last)) && VG_SAME(f->shared_fs->fs_last, __CPROVER_old(f->shared_fs->fs_last))))
/* otherwise the reload has happened by the time the call returns, and the handle is current (also a handle that was out of date
 * and finds the setfile unchanged) */
__CPROVER_ensures(__CPROVER_old(f->shared_fs->n_iters) == 0 ==> (vg_rl.calls == 1 && vg_rl.fs == f->shared_fs->my_fs && !f->shared_fs->reload_needed
                  && VG_SAME(f->fs_last, f->shared_fs->fs_last) && VG_SAME(f->shared_fs->fs_last, vg_now) && vg_mgen == vg_gen))
__CPROVER_ensures(vg_gen != __CPROVER_old(vg_gen) ==> !VG_SAME(f->shared_fs->fs_last, __CPROVER_old(f->shared_fs->fs_last)))
;
void h_fileset_reload_dfcc(void) { struct mtbl_fileset *f; mtbl_fileset_reload(f); VG_REACH("mtbl_fileset_reload returns"); }
void h_fileset_reload_now_dfcc(void) { struct mtbl_fileset *f; mtbl_fileset_reload_now(f); VG_REACH("mtbl_fileset_reload_now returns"); }

/* ------------------------------------------------------------------ source operations and iterator close, with
 * mtbl_fileset_reload replaced by ITS OWN contract above (modular composition: callers see only the contract). */
struct { unsigned calls; struct mtbl_merger *m; unsigned current_at_call; unsigned long iters_at_call; unsigned reload_calls_at_call; } vg_msrc;
struct { unsigned calls; struct mtbl_iter *ret; } vg_sit;
struct { unsigned calls; void *clos; struct mtbl_iter *ret; } vg_iin;
struct { unsigned calls; struct mtbl_iter *it; unsigned long iters_at_call; } vg_idel;
static struct fileset_iter vg_fit_obj;

void *my_calloc__cap(size_t a, size_t b) __CPROVER_requires(1) __CPROVER_assigns(__CPROVER_object_whole(&vg_fit_obj)) __CPROVER_ensures(__CPROVER_return_value == (void *)&vg_fit_obj) ;
void free__cap(void *p) __CPROVER_requires(1) __CPROVER_assigns() __CPROVER_ensures(1) ;
const struct mtbl_source *mtbl_merger_source__cap(struct mtbl_merger *m)
__CPROVER_requires(vg_msrc.calls == 0)
__CPROVER_assigns(__CPROVER_object_whole(&vg_msrc))
__CPROVER_ensures(vg_msrc.calls == 1 && vg_msrc.m == m && vg_msrc.current_at_call == (unsigned)(vg_mgen == vg_gen) && vg_msrc.iters_at_call == vg_sfs->n_iters && vg_msrc.reload_calls_at_call == vg_clk.calls + 1000 * vg_rl.calls)
;
struct mtbl_iter *mtbl_source_iter__cap(const struct mtbl_source *s)
__CPROVER_requires(vg_sit.calls == 0)
__CPROVER_assigns(__CPROVER_object_whole(&vg_sit))
__CPROVER_ensures(vg_sit.calls == 1 && __CPROVER_return_value == vg_sit.ret)
;
struct mtbl_iter *mtbl_iter_init__cap(mtbl_iter_seek_func a, mtbl_iter_next_func b, mtbl_iter_free_func c, void *clos)
__CPROVER_requires(vg_iin.calls == 0)
__CPROVER_assigns(__CPROVER_object_whole(&vg_iin))
__CPROVER_ensures(vg_iin.calls == 1 && vg_iin.clos == clos && __CPROVER_return_value == vg_iin.ret && vg_iin.ret != NULL)
;
void mtbl_iter_destroy__cap(struct mtbl_iter **it)
__CPROVER_requires(vg_idel.calls == 0)
__CPROVER_assigns(__CPROVER_object_whole(&vg_idel), *it)
__CPROVER_ensures(vg_idel.calls == 1 && vg_idel.it == __CPROVER_old(*it) && *it == NULL && vg_idel.iters_at_call == vg_sfs->n_iters)
;
#define VG_F ((struct mtbl_fileset *)clos)
#define VG_SOURCE_OP_CONTRACT \
__CPROVER_requires(__CPROVER_is_fresh(clos, sizeof(struct mtbl_fileset)) && __CPROVER_is_fresh(VG_F->shared_fs, sizeof(struct shared_fileset)) && vg_sfs == VG_F->shared_fs && VG_F->shared_fs->my_fs != NULL) \
__CPROVER_requires(vg_rl.calls == 0 && vg_ri.calls == 0 && vg_clk.calls == 0 && vg_seq == 0 && vg_msrc.calls == 0 && vg_sit.calls == 0 && vg_iin.calls == 0 && VG_F->shared_fs->n_iters <= 1000000) \
__CPROVER_requires(VG_SAME(VG_F->fs_last, VG_F->shared_fs->fs_last) ==> vg_mgen == vg_gen) \
__CPROVER_requires(vg_now.tv_sec >= VG_F->shared_fs->fs_last.tv_sec && vg_now.tv_sec >= 0 && VG_F->shared_fs->fs_last.tv_sec >= 0 && !VG_SAME(vg_now, VG_F->shared_fs->fs_last) && !VG_SAME(vg_now, VG_F->fs_last)) \
__CPROVER_assigns(VG_F->fs_last, VG_F->shared_fs->fs_last, VG_F->shared_fs->reload_needed, VG_F->shared_fs->n_loaded, VG_F->shared_fs->n_unloaded, VG_F->shared_fs->n_iters, vg_gen, vg_mgen, vg_seq, \
                  __CPROVER_object_whole(&vg_rl), __CPROVER_object_whole(&vg_ri), __CPROVER_object_whole(&vg_clk), __CPROVER_object_whole(&vg_msrc), __CPROVER_object_whole(&vg_sit), __CPROVER_object_whole(&vg_iin), __CPROVER_object_whole(&vg_fit_obj)) \
__CPROVER_ensures(vg_msrc.calls == 1 && vg_msrc.m == VG_F->merger && vg_msrc.current_at_call == 1 && vg_msrc.iters_at_call == __CPROVER_old(VG_F->shared_fs->n_iters)) \
__CPROVER_ensures(VG_F->shared_fs->n_iters == __CPROVER_old(VG_F->shared_fs->n_iters) + 1) \
__CPROVER_ensures((__CPROVER_old(VG_F->shared_fs->reload_needed) && __CPROVER_old(VG_F->shared_fs->n_iters) == 0) ==> (vg_rl.calls == 1 && !VG_F->shared_fs->reload_needed)) \
__CPROVER_ensures(__CPROVER_old(VG_F->shared_fs->n_iters) > 0 ==> (vg_rl.calls == 0 && vg_gen == __CPROVER_old(vg_gen))) \
__CPROVER_ensures(vg_sit.calls == 1 && vg_iin.calls == 1 && vg_iin.clos == (void *)&vg_fit_obj && vg_fit_obj.iter == vg_sit.ret && vg_fit_obj.fs == VG_F && __CPROVER_return_value == vg_iin.ret)
struct mtbl_iter *fileset_source_iter__spec(void *clos)
VG_SOURCE_OP_CONTRACT;
void h_fileset_source_iter_dfcc(void) { void *c; struct mtbl_iter *it = fileset_source_iter(c); VG_REACH("fileset_source_iter returns"); }

#define VG_IT ((struct fileset_iter *)v)
void fileset_iter_free__spec(void *v)
__CPROVER_requires(__CPROVER_is_fresh(v, sizeof(struct fileset_iter)) && __CPROVER_is_fresh(VG_IT->fs, sizeof(struct mtbl_fileset)) && __CPROVER_is_fresh(VG_IT->fs->shared_fs, sizeof(struct shared_fileset)))
__CPROVER_requires(vg_sfs == VG_IT->fs->shared_fs && VG_IT->fs->shared_fs->my_fs != NULL && VG_IT->fs->shared_fs->n_iters >= 1 && VG_IT->fs->shared_fs->n_iters <= 1000000)
__CPROVER_requires(vg_rl.calls == 0 && vg_ri.calls == 0 && vg_clk.calls == 0 && vg_seq == 0 && vg_idel.calls == 0)
__CPROVER_requires(VG_SAME(VG_IT->fs->fs_last, VG_IT->fs->shared_fs->fs_last) ==> vg_mgen == vg_gen)
__CPROVER_requires(vg_now.tv_sec >= VG_IT->fs->shared_fs->fs_last.tv_sec && vg_now.tv_sec >= 0 && VG_IT->fs->shared_fs->fs_last.tv_sec >= 0 && !VG_SAME(vg_now, VG_IT->fs->shared_fs->fs_last) && !VG_SAME(vg_now, VG_IT->fs->fs_last))
__CPROVER_assigns(VG_IT->iter, VG_IT->fs->fs_last, VG_IT->fs->shared_fs->fs_last, VG_IT->fs->shared_fs->reload_needed, VG_IT->fs->shared_fs->n_loaded, VG_IT->fs->shared_fs->n_unloaded, VG_IT->fs->shared_fs->n_iters, vg_gen, vg_mgen, vg_seq,
                  __CPROVER_object_whole(&vg_rl), __CPROVER_object_whole(&vg_ri), __CPROVER_object_whole(&vg_clk), __CPROVER_object_whole(&vg_idel))
/* closing an iterator unpins: one fewer; the merged iterator underneath is destroyed */
__CPROVER_ensures(vg_sfs->n_iters == __CPROVER_old(vg_sfs->n_iters) - 1 && vg_idel.calls == 1 && vg_idel.it == __CPROVER_old(VG_IT->iter))
/* snapshots stay pinned while others are open; when the LAST iterator closes a deferred reload_now takes effect at once */
__CPROVER_ensures(__CPROVER_old(vg_sfs->n_iters) > 1 ==> (vg_rl.calls == 0 && vg_gen == __CPROVER_old(vg_gen)))
__CPROVER_ensures((__CPROVER_old(vg_sfs->n_iters) == 1 && __CPROVER_old(vg_sfs->reload_needed)) ==> (vg_rl.calls == 1 && !vg_sfs->reload_needed))
;
void h_fileset_iter_free_dfcc(void) { void *v; fileset_iter_free(v); VG_REACH("fileset_iter_free returns"); }

/* the three bounded lookups of a fileset source: same contract as fileset_source_iter (the iterator comes from the per-handle
 * merger's lookup of the same kind, with exactly the caller's bounds) */
struct { unsigned kind; const uint8_t *k0, *k1; size_t l0, l1; } vg_lk;
struct mtbl_iter *mtbl_source_get__cap(const struct mtbl_source *s, const uint8_t *k, size_t l)
__CPROVER_requires(vg_sit.calls == 0) __CPROVER_assigns(__CPROVER_object_whole(&vg_sit), __CPROVER_object_whole(&vg_lk))
__CPROVER_ensures(vg_sit.calls == 1 && __CPROVER_return_value == vg_sit.ret && vg_lk.kind == 1 && vg_lk.k0 == k && vg_lk.l0 == l) ;
struct mtbl_iter *mtbl_source_get_prefix__cap(const struct mtbl_source *s, const uint8_t *k, size_t l)
__CPROVER_requires(vg_sit.calls == 0) __CPROVER_assigns(__CPROVER_object_whole(&vg_sit), __CPROVER_object_whole(&vg_lk))
__CPROVER_ensures(vg_sit.calls == 1 && __CPROVER_return_value == vg_sit.ret && vg_lk.kind == 2 && vg_lk.k0 == k && vg_lk.l0 == l) ;
struct mtbl_iter *mtbl_source_get_range__cap(const struct mtbl_source *s, const uint8_t *k0, size_t l0, const uint8_t *k1, size_t l1)
__CPROVER_requires(vg_sit.calls == 0) __CPROVER_assigns(__CPROVER_object_whole(&vg_sit), __CPROVER_object_whole(&vg_lk))
__CPROVER_ensures(vg_sit.calls == 1 && __CPROVER_return_value == vg_sit.ret && vg_lk.kind == 3 && vg_lk.k0 == k0 && vg_lk.l0 == l0 && vg_lk.k1 == k1 && vg_lk.l1 == l1) ;
struct mtbl_iter *fileset_source_get__spec(void *clos, const uint8_t *key, size_t len_key)
VG_SOURCE_OP_CONTRACT
__CPROVER_assigns(__CPROVER_object_whole(&vg_lk))
__CPROVER_ensures(vg_lk.kind == 1 && vg_lk.k0 == key && vg_lk.l0 == len_key)
;
struct mtbl_iter *fileset_source_get_prefix__spec(void *clos, const uint8_t *key, size_t len_key)
VG_SOURCE_OP_CONTRACT
__CPROVER_assigns(__CPROVER_object_whole(&vg_lk))
__CPROVER_ensures(vg_lk.kind == 2 && vg_lk.k0 == key && vg_lk.l0 == len_key)
;
struct mtbl_iter *fileset_source_get_range__spec(void *clos, const uint8_t *key0, size_t len_key0, const uint8_t *key1, size_t len_key1)
VG_SOURCE_OP_CONTRACT
__CPROVER_assigns(__CPROVER_object_whole(&vg_lk))
__CPROVER_ensures(vg_lk.kind == 3 && vg_lk.k0 == key0 && vg_lk.l0 == len_key0 && vg_lk.k1 == key1 && vg_lk.l1 == len_key1)
;
void h_fileset_source_get_dfcc(void) { void *c; const uint8_t *k; size_t l; struct mtbl_iter *it = fileset_source_get(c, k, l); VG_REACH("fileset_source_get returns"); }
void h_fileset_source_get_prefix_dfcc(void) { void *c; const uint8_t *k; size_t l; struct mtbl_iter *it = fileset_source_get_prefix(c, k, l); VG_REACH("fileset_source_get_prefix returns"); }
void h_fileset_source_get_range_dfcc(void) { void *c; const uint8_t *k, *k1; size_t l, l1; struct mtbl_iter *it = fileset_source_get_range(c, k, l, k1, l1); VG_REACH("fileset_source_get_range returns"); }
