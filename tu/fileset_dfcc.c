/* C07: mtbl_fileset_reload and mtbl_fileset_reload_now (mtbl/fileset.c, real) under DFCC -- no bound on the number of tables,
 * handles or earlier operations: my_fileset_reload, fs_reinit_merger and the clock are capture contracts over a ghost
 * GENERATION of the shared reader set.
 *   vg_gen   generation of the shared set; my_fileset_reload bumps it exactly when it loads or unloads something
 *   vg_mgen  generation this handle's merger was built from; fs_reinit_merger sets it to vg_gen
 * Handle invariant H (assumed on entry, hence every history):  handle timestamp == shared timestamp  ==>  vg_mgen == vg_gen.
 * Clock: monotonic and never equal to a timestamp handed out before (so a timestamp identifies a generation).
 * Obligations: after either call the handle is CURRENT (timestamps equal and merger built from the current generation) unless
 * reload_now was deferred; no reload while an iterator is open, reload_now is then remembered; a reload happens exactly under
 * the interval / forced rules; whenever the generation changes the shared timestamp changes (so every other handle, dup
 * handles included, notices: its own H stays true). */
#include "mtbl/fileset.c"
#include "spec/ghost.h"

unsigned long vg_gen, vg_mgen;
struct shared_fileset *vg_sfs;
struct timespec vg_now;
struct { unsigned calls, seq; struct my_fileset *fs; } vg_rl;
struct { unsigned calls, seq_last; struct mtbl_fileset *f; } vg_ri;
struct { unsigned calls; } vg_clk;
unsigned vg_seq;

void my_fileset_reload__cap(struct my_fileset *fs)
__CPROVER_requires(vg_rl.calls == 0)
__CPROVER_assigns(__CPROVER_object_whole(&vg_rl), vg_seq, vg_gen, vg_sfs->n_loaded, vg_sfs->n_unloaded)
__CPROVER_ensures(vg_rl.calls == 1 && vg_rl.fs == fs && vg_seq == __CPROVER_old(vg_seq) + 1 && vg_rl.seq == vg_seq)
__CPROVER_ensures(vg_sfs->n_loaded >= __CPROVER_old(vg_sfs->n_loaded) && vg_sfs->n_unloaded >= __CPROVER_old(vg_sfs->n_unloaded) && vg_sfs->n_loaded <= 1000000 && vg_sfs->n_unloaded <= 1000000)
__CPROVER_ensures((vg_gen != __CPROVER_old(vg_gen)) == (vg_sfs->n_loaded > __CPROVER_old(vg_sfs->n_loaded) || vg_sfs->n_unloaded > __CPROVER_old(vg_sfs->n_unloaded)))
;
void fs_reinit_merger__cap(struct mtbl_fileset *f)
__CPROVER_requires(vg_ri.calls < 2)
__CPROVER_assigns(__CPROVER_object_whole(&vg_ri), vg_seq, vg_mgen)
__CPROVER_ensures(vg_ri.calls == __CPROVER_old(vg_ri.calls) + 1 && vg_ri.f == f && vg_mgen == vg_gen && vg_seq == __CPROVER_old(vg_seq) + 1 && vg_ri.seq_last == vg_seq)
;
void my_gettime__cap(clockid_t c, struct timespec *ts)
__CPROVER_requires(vg_clk.calls == 0)
__CPROVER_assigns(__CPROVER_object_whole(&vg_clk), *ts)
__CPROVER_ensures(vg_clk.calls == 1 && ts->tv_sec == vg_now.tv_sec && ts->tv_nsec == vg_now.tv_nsec)
;
#define VG_SAME(a, b) ((a).tv_sec == (b).tv_sec && (a).tv_nsec == (b).tv_nsec)
#define VG_COMMON_REQ \
__CPROVER_requires(__CPROVER_is_fresh(f, sizeof(*f)) && __CPROVER_is_fresh(f->shared_fs, sizeof(struct shared_fileset)) && vg_sfs == f->shared_fs && f->shared_fs->my_fs != NULL) \
__CPROVER_requires(vg_rl.calls == 0 && vg_ri.calls == 0 && vg_clk.calls == 0 && vg_seq == 0) \
/* H */ __CPROVER_requires(VG_SAME(f->fs_last, f->shared_fs->fs_last) ==> vg_mgen == vg_gen) \
/* clock: later than the last reload and different from every timestamp handed out before */ \
__CPROVER_requires(vg_now.tv_sec >= f->shared_fs->fs_last.tv_sec && vg_now.tv_sec >= 0 && f->shared_fs->fs_last.tv_sec >= 0 && !VG_SAME(vg_now, f->shared_fs->fs_last) && !VG_SAME(vg_now, f->fs_last))
#define VG_COMMON_ASSIGNS __CPROVER_assigns(f->fs_last, f->shared_fs->fs_last, f->shared_fs->reload_needed, f->shared_fs->n_loaded, f->shared_fs->n_unloaded, vg_gen, vg_mgen, vg_seq, \
                  __CPROVER_object_whole(&vg_rl), __CPROVER_object_whole(&vg_ri), __CPROVER_object_whole(&vg_clk))

void mtbl_fileset_reload__spec(struct mtbl_fileset *f)
VG_COMMON_REQ
VG_COMMON_ASSIGNS
/* the handle is current afterwards, whatever happened */
__CPROVER_ensures(VG_SAME(f->fs_last, f->shared_fs->fs_last) && vg_mgen == vg_gen)
/* pinning: no reload while any iterator on the shared fileset is open */
__CPROVER_ensures(__CPROVER_old(f->shared_fs->n_iters) > 0 ==> (vg_rl.calls == 0 && vg_gen == __CPROVER_old(vg_gen) && f->shared_fs->reload_needed == __CPROVER_old(f->shared_fs->reload_needed)))
/* when a reload happens: forced reload pending, or more than the interval elapsed (never for RELOAD_INTERVAL_NEVER) */
__CPROVER_ensures((vg_rl.calls == 1) == (__CPROVER_old(f->shared_fs->n_iters) == 0 && (__CPROVER_old(f->shared_fs->reload_needed)
                  || (f->reload_interval != MTBL_FILESET_RELOAD_INTERVAL_NEVER && vg_now.tv_sec - __CPROVER_old(f->shared_fs->fs_last.tv_sec) > (time_t)f->reload_interval))))
__CPROVER_ensures(vg_rl.calls == 1 ==> (vg_rl.fs == f->shared_fs->my_fs && !f->shared_fs->reload_needed && VG_SAME(f->shared_fs->fs_last, vg_now)))
/* a changed generation is always published through a new shared timestamp */
__CPROVER_ensures(vg_gen != __CPROVER_old(vg_gen) ==> !VG_SAME(f->shared_fs->fs_last, __CPROVER_old(f->shared_fs->fs_last)))
__CPROVER_ensures(vg_rl.calls == 0 ==> (VG_SAME(f->shared_fs->fs_last, __CPROVER_old(f->shared_fs->fs_last)) && vg_gen == __CPROVER_old(vg_gen)))
;
void mtbl_fileset_reload_now__spec(struct mtbl_fileset *f)
VG_COMMON_REQ
VG_COMMON_ASSIGNS
/* deferred while an iterator is open: remembered, nothing else happens */
__CPROVER_ensures(__CPROVER_old(f->shared_fs->n_iters) > 0 ==> (f->shared_fs->reload_needed && vg_rl.calls == 0 && vg_ri.calls == 0 && vg_gen == __CPROVER_old(vg_gen) && vg_mgen == __CPROVER_old(vg_mgen)
                  && VG_SAME(f->fs_last, __CPROVER_old(f->fs_last)) && VG_SAME(f->shared_fs->fs_last, __CPROVER_old(f->shared_fs->fs_last))))
/* otherwise the reload has happened by the time the call returns, and the handle is current (also a handle that was out of date
 * and finds the setfile unchanged) */
__CPROVER_ensures(__CPROVER_old(f->shared_fs->n_iters) == 0 ==> (vg_rl.calls == 1 && vg_rl.fs == f->shared_fs->my_fs && !f->shared_fs->reload_needed
                  && VG_SAME(f->fs_last, f->shared_fs->fs_last) && VG_SAME(f->shared_fs->fs_last, vg_now) && vg_mgen == vg_gen))
__CPROVER_ensures(vg_gen != __CPROVER_old(vg_gen) ==> !VG_SAME(f->shared_fs->fs_last, __CPROVER_old(f->shared_fs->fs_last)))
;
void h_fileset_reload_dfcc(void) { struct mtbl_fileset *f; mtbl_fileset_reload(f); VG_REACH("mtbl_fileset_reload returns"); }
void h_fileset_reload_now_dfcc(void) { struct mtbl_fileset *f; mtbl_fileset_reload_now(f); VG_REACH("mtbl_fileset_reload_now returns"); }
