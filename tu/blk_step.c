/* mtbl/block.c against its abstract contract (the one assumed by the reader harnesses):
 *   a block = strictly increasing entries; block_iter_seek = lower bound; next/get/valid positional.
 * Real code: mtbl/block.c (included), varint.c, fixed.c, ubuf.  The block bytes are produced by an INDEPENDENT
 * reference encoder in this file from a symbolic entry list with any legal encoding choice (restart at any subset of
 * entries, any amount of prefix sharing up to the common prefix -- not only what today's writer emits). */
#include "mtbl/block.c"
#include "spec/ghost.h"
void *realloc(void *p, size_t n) { VG_A(0, "no vector growth expected in this capped harness"); __CPROVER_assume(0); return p; }

#define NE 4
#define KL 2
static uint8_t EK[NE * KL]; static size_t ELK[NE]; static uint8_t EV[NE];
static unsigned en;                       /* number of entries 1..NE */
static _Bool erst[NE]; static size_t eshared[NE]; static size_t eoff[NE];
static uint8_t blk[96]; static size_t blk_len, blk_entries_end; static unsigned n_rst;

static int vg_cmp(const uint8_t *a, size_t la, const uint8_t *b, size_t lb)
{
	for (size_t i = 0; i < KL; i++) { if (i >= la || i >= lb) break; if (a[i] != b[i]) return a[i] < b[i] ? -1 : 1; }
	return la < lb ? -1 : la > lb;
}
static void vg_le32(uint8_t *p, uint32_t v) { p[0] = v; p[1] = v >> 8; p[2] = v >> 16; p[3] = v >> 24; }

/* Layout (number of entries, key lengths, sharing, restart flags) is concrete per variant (-DVG_LAYOUT) so that every
 * offset constant-propagates; key bytes, values, targets and the iterator's prior state stay symbolic. */
#ifndef VG_LAYOUT
#define VG_LAYOUT { {1,0,1}, {2,1,0}, {2,0,1}, {2,1,0} }
#define VG_EN 4
#endif
static void vg_encode_block(void)
{
	static const size_t lay[NE][3] = VG_LAYOUT;     /* {key length, shared, restart} */
	en = VG_EN;
	size_t o = 0; n_rst = 0;
	uint32_t rst_off[NE];
	for (unsigned i = 0; i < NE; i++) {
		ELK[i] = lay[i][0];
		for (int c = 0; c < KL; c++) EK[KL * i + c] = nondet_u8();
		EV[i] = nondet_u8();
		if (i >= en) continue;
		if (i > 0) __CPROVER_assume(vg_cmp(&EK[KL * (i - 1)], ELK[i - 1], &EK[KL * i], ELK[i]) < 0);
		erst[i] = (i == 0) ? 1 : lay[i][2];
		eshared[i] = erst[i] ? 0 : lay[i][1];
		/* legal sharing: the first `shared` bytes really are common with the previous key (any amount up to the common prefix) */
		for (size_t c = 0; c < KL; c++) if (c < eshared[i]) __CPROVER_assume(i > 0 && c < ELK[i - 1] && c < ELK[i] && EK[KL * (i - 1) + c] == EK[KL * i + c]);
		eoff[i] = o;
		if (erst[i]) rst_off[n_rst++] = (uint32_t)o;
		blk[o++] = (uint8_t)eshared[i]; blk[o++] = (uint8_t)(ELK[i] - eshared[i]); blk[o++] = 1;
		for (size_t c = eshared[i]; c < KL; c++) if (c < ELK[i]) blk[o++] = EK[KL * i + c];
		blk[o++] = EV[i];
	}
	blk_entries_end = o;
	for (unsigned r = 0; r < NE; r++) if (r < n_rst) { vg_le32(&blk[o], rst_off[r]); o += 4; }
	vg_le32(&blk[o], n_rst); o += 4;
	blk_len = o;
}
static unsigned vg_lower(const uint8_t *k, size_t lk) { unsigned r = 0; for (unsigned i = 0; i < NE; i++) if (i < en && vg_cmp(&EK[KL * i], ELK[i], k, lk) < 0) r = i + 1; return r; }

static void vg_check_at(struct block_iter *bi, unsigned pos, const char *unused)
{
	const uint8_t *k, *v; size_t lk, lv;
	_Bool ok = block_iter_get(bi, &k, &lk, &v, &lv);
	VG_P("C02,C03,C11,C01", ok == (pos < en) && block_iter_valid(bi) == (pos < en), "the iterator is valid exactly when it stands on an entry");
	if (ok && pos < en) {
		VG_P("C02,C03,C11,C01", lk == ELK[pos] && lv == 1 && v[0] == EV[pos], "the entry under the iterator has the expected key length and value");
		size_t in_c = nondet_size(); if (in_c < lk && in_c < KL) VG_P("C02,C03,C11,C01", k[in_c] == EK[KL * pos + in_c], "the entry under the iterator has the expected key bytes (prefix reconstructed)");
	}
}

/* ======================================================================= seek / next from every reachable iterator state */
void h_blk_seek(void)
{
	vg_encode_block();
	struct block *b = block_init(blk, blk_len, false);
	VG_P("C11,C01", b->size == blk_len && b->restart_offset == blk_entries_end, "block_init locates the restart array of an independently encoded block");
	struct block_iter *bi = block_iter_init(b);
	/* bring the iterator into an arbitrary reachable state */
#ifdef VG_PREP
	unsigned in_prep = VG_PREP; unsigned pos = en;
#else
	unsigned in_prep = nondet_u32(); unsigned pos = en;
#endif
	if (in_prep == 1) { block_iter_seek_to_first(bi); pos = 0; unsigned in_steps = nondet_u32(); __CPROVER_assume(in_steps <= NE);
		for (unsigned s = 0; s < NE; s++) if (s < in_steps) { _Bool r = block_iter_next(bi); if (pos < en) pos++; VG_P("C01,C11,C03", r == (pos < en), "next reports whether another entry follows"); }
		vg_check_at(bi, pos, "");
	} else if (in_prep == 2) {
		uint8_t k0[KL]; size_t l0 = nondet_size(); __CPROVER_assume(l0 <= KL); for (int c = 0; c < KL; c++) k0[c] = nondet_u8();
		block_iter_seek(bi, k0, l0); pos = vg_lower(k0, l0);
		vg_check_at(bi, pos, "");
		if (nondet_bool()) { block_iter_next(bi); if (pos < en) pos++; }
	}
	VG_REACH("iterator prepared");
	uint8_t in_key[KL]; size_t in_lk = nondet_size(); __CPROVER_assume(in_lk <= KL); for (int c = 0; c < KL; c++) in_key[c] = nondet_u8();
	block_iter_seek(bi, in_key, in_lk);
	pos = vg_lower(in_key, in_lk);
	vg_check_at(bi, pos, "");                 /* seek = lower bound, from any state */
	_Bool r = block_iter_next(bi); if (pos < en) pos++;
	VG_P("C01,C11,C03", r == (pos < en), "next after seek reports whether another entry follows");
	vg_check_at(bi, pos, "");
	VG_REACH("seek/next completes");
}

/* ======================================================================= 64-bit restart arrays (blocks above 4 GiB) */
void h_blk_restart64(void)
{
	size_t in_size = nondet_size();
	__CPROVER_assume(in_size > ((size_t)1 << 32) + 64 && in_size <= ((size_t)1 << 40));
	uint8_t *data = malloc(in_size);          /* arbitrary content */
	uint32_t n = mtbl_fixed_decode32(data + in_size - 4);
	__CPROVER_assume(n >= 1 && n <= 3);
	struct block *b = block_init(data, in_size, false);
	VG_REACH("block_init on a > 4 GiB block returns");
	VG_P("C11", b->size == in_size && b->restart_offset == in_size - 4 - 8 * (size_t)n, "a block whose entries end above 4 GiB has a 64-bit restart array of n entries before the count");
	struct block_iter *bi = block_iter_init(b);
	VG_P("C11", bi->num_restarts == n && bi->restarts == b->restart_offset, "iterator sees the 64-bit restart array");
	uint32_t in_i = nondet_u32(); __CPROVER_assume(in_i < n);
	uint64_t want = 0; for (int c = 0; c < 8; c++) want |= (uint64_t)data[b->restart_offset + 8 * (size_t)in_i + c] << (8 * c);
	VG_P("C11", get_restart_point(bi, in_i) == want, "restart offset i is the i-th little-endian 64-bit integer of the array");
	/* the restart key comparison must look at the entry at that 64-bit offset */
	__CPROVER_assume(want <= b->restart_offset && b->restart_offset - want >= 3 + KL);
	__CPROVER_assume(data[want] == 0 && data[want + 1] <= KL && data[want + 2] < 128);        /* shared 0, fast-path header */
	__CPROVER_assume((size_t)data[want + 1] + data[want + 2] <= b->restart_offset - want - 3);
	uint8_t in_t[KL]; size_t in_tl = nondet_size(); __CPROVER_assume(in_tl <= KL); for (int c = 0; c < KL; c++) in_t[c] = nondet_u8();
	int c1 = compare_restart_point(bi, in_i, in_t, in_tl);
	int c2 = vg_cmp(data + want + 3, data[want + 1], in_t, in_tl);
	VG_P("C11,C02,C03", (c1 < 0) == (c2 < 0) && (c1 == 0) == (c2 == 0), "the restart key compared is the one stored at the full 64-bit restart offset");
	seek_to_restart_point(bi, in_i);
	VG_P("C11", bi->next == data + want && bi->restart_index == in_i, "seeking to a restart point positions at the full 64-bit offset");
}

/* ======================================================================= entry header: fast path and varint path */
void h_decode_entry(void)
{
	uint8_t in_b[24]; for (int i = 0; i < 24; i++) in_b[i] = nondet_u8();
	size_t in_avail = nondet_size(); __CPROVER_assume(in_avail <= 24);
	/* independent reference: three base-128 numbers of at most 5 bytes each */
	uint64_t val[3]; size_t o = 0; _Bool okref = 1;
	for (int f = 0; f < 3; f++) { uint64_t v = 0; unsigned s = 0; _Bool done = 0;
		for (int c = 0; c < 5; c++) if (!done) { if (o >= 24) { okref = 0; done = 1; } else { v |= (uint64_t)(in_b[o] & 0x7f) << s; s += 7; if (!(in_b[o++] & 0x80)) done = 1; else if (c == 4) okref = 0; } }
		val[f] = v; }
	__CPROVER_assume(okref && o <= in_avail && val[0] <= UINT32_MAX && val[1] <= UINT32_MAX && val[2] <= UINT32_MAX);   /* well-formed header inside the block */
	__CPROVER_assume(val[1] + val[2] <= in_avail - o || 1);
	uint32_t sh = 7, nsh = 7, vl = 7;
	uint8_t *p = decode_entry(in_b, in_b + in_avail, &sh, &nsh, &vl);
	VG_REACH("decode_entry returns");
	if (in_avail >= 3) {
		VG_P("C11,C01", p == in_b + o && sh == (uint32_t)val[0] && nsh == (uint32_t)val[1] && vl == (uint32_t)val[2],
		     "decode_entry reads shared / non_shared / value length as three base-128 numbers (fast path for one-byte numbers, varint path otherwise) and returns the position after them");
	} else VG_P("C11", p == NULL, "fewer than 3 bytes cannot hold an entry header");
}
