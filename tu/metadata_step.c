/* C10 / C09: mtbl/metadata.c (real) -- serialisation order of the nine 64-bit fields, zero padding, magic, and the
 * inverse metadata_read (both magics); the ten accessors.  Loops are width-bounded (436 padding bytes): unwound, complete. */
#include "mtbl/metadata.c"
#include "spec/ghost.h"

void h_metadata(void)
{
	struct mtbl_metadata in_m;
	in_m.file_version = MTBL_FORMAT_V2;
	in_m.index_block_offset = nondet_u64(); in_m.data_block_size = nondet_u64(); in_m.compression_algorithm = nondet_u64();
	in_m.count_entries = nondet_u64(); in_m.count_data_blocks = nondet_u64(); in_m.bytes_data_blocks = nondet_u64();
	in_m.bytes_index_block = nondet_u64(); in_m.bytes_keys = nondet_u64(); in_m.bytes_values = nondet_u64();
	uint8_t buf[MTBL_METADATA_SIZE + 2]; buf[MTBL_METADATA_SIZE] = 0x5A; buf[MTBL_METADATA_SIZE + 1] = 0xA5;
	metadata_write(&in_m, buf);
	VG_REACH("metadata_write returns");
	const uint64_t f[9] = { in_m.index_block_offset, in_m.data_block_size, in_m.compression_algorithm, in_m.count_entries, in_m.count_data_blocks,
	                        in_m.bytes_data_blocks, in_m.bytes_index_block, in_m.bytes_keys, in_m.bytes_values };
	unsigned in_i = nondet_u32(), in_j = nondet_u32(); __CPROVER_assume(in_i < 9 && in_j < 8);
	VG_P("C10,C09", buf[8 * in_i + in_j] == (uint8_t)(f[in_i] >> (8 * in_j)), "trailer field i is the i-th little-endian 64-bit integer: index offset, block size, algorithm, entries, data blocks, data bytes, index bytes, key bytes, value bytes");
	unsigned in_k = nondet_u32(); __CPROVER_assume(in_k >= 72 && in_k < 508);
	VG_P("C09", buf[in_k] == 0, "the trailer is zero padded between the fields and the magic");
	VG_P("C09", buf[508] == 0x4C && buf[509] == 0x42 && buf[510] == 0x54 && buf[511] == 0x4D, "the trailer ends with the MTBL v2 magic");
	VG_P("C09", buf[512] == 0x5A && buf[513] == 0xA5, "exactly 512 bytes are written");
	struct mtbl_metadata out; out.file_version = 9;
	bool ok = metadata_read(buf, &out);
	VG_P("C10,C01", ok && out.file_version == MTBL_FORMAT_V2 && out.index_block_offset == in_m.index_block_offset && out.data_block_size == in_m.data_block_size
	     && out.compression_algorithm == in_m.compression_algorithm && out.count_entries == in_m.count_entries && out.count_data_blocks == in_m.count_data_blocks
	     && out.bytes_data_blocks == in_m.bytes_data_blocks && out.bytes_index_block == in_m.bytes_index_block && out.bytes_keys == in_m.bytes_keys && out.bytes_values == in_m.bytes_values,
	     "metadata_read returns exactly what metadata_write stored");
	VG_P("C10", mtbl_metadata_count_entries(&out) == in_m.count_entries && mtbl_metadata_count_data_blocks(&out) == in_m.count_data_blocks && mtbl_metadata_bytes_data_blocks(&out) == in_m.bytes_data_blocks
	     && mtbl_metadata_bytes_index_block(&out) == in_m.bytes_index_block && mtbl_metadata_bytes_keys(&out) == in_m.bytes_keys && mtbl_metadata_bytes_values(&out) == in_m.bytes_values
	     && mtbl_metadata_index_block_offset(&out) == in_m.index_block_offset && mtbl_metadata_data_block_size(&out) == in_m.data_block_size
	     && mtbl_metadata_compression_algorithm(&out) == in_m.compression_algorithm && mtbl_metadata_file_version(&out) == MTBL_FORMAT_V2, "each accessor returns its own field");
	/* v1 magic and foreign magic */
	buf[508] = 0x76; buf[509] = 0x66; buf[510] = 0x84; buf[511] = 0x77;
	VG_P("C11,C19", metadata_read(buf, &out) && out.file_version == MTBL_FORMAT_V1 && out.bytes_values == in_m.bytes_values, "the v1 magic selects format v1 with the same field layout");
	uint32_t in_magic = nondet_u32(); __CPROVER_assume(in_magic != MTBL_MAGIC && in_magic != MTBL_MAGIC_V1);
	buf[508] = in_magic; buf[509] = in_magic >> 8; buf[510] = in_magic >> 16; buf[511] = in_magic >> 24;
	VG_P("C19,C11", !metadata_read(buf, &out), "any other magic is refused");
}
