/* C02 / C03: block_iter_seek's restart search (galloping + binary search) for ANY number of restart points, under DFCC:
 * compare_restart_point is replaced by a contract relative to a ghost boundary vg_B (restart keys are sorted, so
 * "restart key i < target" holds exactly for i < vg_B); seek_to_restart_point and parse_next_key are replaced by capture
 * contracts.  Obligation: the scan starts from restart 0 or from a restart point whose key is < target; both loops terminate. */
#include "mtbl/block.c"
#include "spec/ghost.h"

uint32_t vg_B;                 /* number of restart points whose key is < target (0..num_restarts) */
uint32_t vg_nr;                /* num_restarts */
uint32_t vg_seek_idx; unsigned vg_seek_calls; unsigned vg_parse_calls;

int compare_restart_point__spec(struct block_iter *bi, const uint32_t i, const uint8_t *target, size_t target_len)
__CPROVER_requires(i < vg_nr)
__CPROVER_assigns()
__CPROVER_ensures((__CPROVER_return_value < 0) == (i < vg_B))
;
void seek_to_restart_point__spec(struct block_iter *bi, uint32_t idx)
__CPROVER_requires(idx < vg_nr)
__CPROVER_assigns(vg_seek_idx, vg_seek_calls)
__CPROVER_ensures(vg_seek_idx == idx && vg_seek_calls == __CPROVER_old(vg_seek_calls) + 1)
;
bool parse_next_key__spec(struct block_iter *bi)
__CPROVER_requires(1)
__CPROVER_assigns(vg_parse_calls)
__CPROVER_ensures(vg_parse_calls == __CPROVER_old(vg_parse_calls) + 1 && __CPROVER_return_value == 0)      /* the linear scan is a separate obligation (blk_seek_*) */
;
int bytes_compare__cur(const uint8_t *a, size_t la, const uint8_t *b, size_t lb)
__CPROVER_requires(1) __CPROVER_assigns() __CPROVER_ensures(1)
;
void block_iter_seek__spec(struct block_iter *bi, const uint8_t *target, size_t target_len)
__CPROVER_requires(__CPROVER_is_fresh(bi, sizeof(*bi)))
__CPROVER_requires(bi->num_restarts == vg_nr && vg_nr >= 1 && vg_nr <= 0x7fffffffu && vg_B <= vg_nr && bi->restart_index <= vg_nr)
__CPROVER_requires(vg_seek_calls == 0 && vg_parse_calls == 0)
__CPROVER_requires(__CPROVER_is_fresh(bi->key, sizeof(ubuf)) && bi->key->_n <= 4 && __CPROVER_is_fresh(bi->key->_v, 4))
__CPROVER_assigns(vg_seek_idx, vg_seek_calls, vg_parse_calls)
/* soundness of the restart search: the scan (re)starts at restart 0 or at a restart point whose key is < target, never
 * beyond the first key >= target.  (Which of the sound restart points is chosen is efficiency, not part of the property.) */
__CPROVER_ensures(vg_seek_calls <= 1)
__CPROVER_ensures(vg_seek_calls == 1 ==> (vg_seek_idx == 0 || vg_seek_idx < vg_B))
;
void h_blk_seek_dfcc(void)
{
	struct block_iter *bi; const uint8_t *t; size_t tl;
	block_iter_seek(bi, t, tl);
	VG_REACH("block_iter_seek returns");
}
