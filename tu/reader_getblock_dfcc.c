/* C12 / C11 / C01: get_block (mtbl/reader.c, real) under DFCC for ANY file size, offset and block length: every data block
 * the reader ever decodes is produced by this function (reader_iter, reader_iter_init, reader_iter_seek, reader_iter_next all
 * call it: groups rd_*_dfcc use its contract).  Decoders, checksum, decompression and block_init are capture contracts.
 * Postconditions: the length prefix is read at the block's offset in the width of the file's format version (fixed 32-bit in
 * v1, varint in v2); with verify_checksums the checksum is computed over exactly the stored bytes and the function only
 * returns when it equals the stored checksum field (otherwise the process stops: permitted loud stop); the bytes handed to
 * block_init are the stored bytes (compression none) or exactly what mtbl_decompress produced from them with the algorithm
 * named in the trailer. */
#include "mtbl/reader.c"
#include "spec/ghost.h"

struct { unsigned calls; const uint8_t *p0, *p1; uint32_t r0, r1; } vg_f32;      /* mtbl_fixed_decode32: argument and result of call 0 / 1 */
struct { unsigned calls; const uint8_t *p; size_t ret; uint64_t val; } vg_v64;
struct { unsigned calls; const uint8_t *buf; size_t len; uint32_t ret; } vg_crc;
struct { unsigned calls; mtbl_compression_type alg; const uint8_t *in; size_t n; uint8_t *out; size_t outn; mtbl_res ret; } vg_dec;
struct { unsigned calls; uint8_t *data; size_t size; unsigned needs_free; struct block *ret; } vg_bi;
static struct block vg_block;

uint32_t mtbl_fixed_decode32__cap(const uint8_t *p)
__CPROVER_requires(vg_f32.calls < 2)
__CPROVER_assigns(__CPROVER_object_whole(&vg_f32))
__CPROVER_ensures(vg_f32.calls == __CPROVER_old(vg_f32.calls) + 1)
__CPROVER_ensures(vg_f32.p0 == (__CPROVER_old(vg_f32.calls) == 0 ? p : __CPROVER_old(vg_f32.p0)) && vg_f32.p1 == (__CPROVER_old(vg_f32.calls) == 1 ? p : __CPROVER_old(vg_f32.p1)))
__CPROVER_ensures(vg_f32.r0 == (__CPROVER_old(vg_f32.calls) == 0 ? __CPROVER_return_value : __CPROVER_old(vg_f32.r0)) && vg_f32.r1 == (__CPROVER_old(vg_f32.calls) == 1 ? __CPROVER_return_value : __CPROVER_old(vg_f32.r1)))
;
size_t mtbl_varint_decode64__cap(const uint8_t *p, uint64_t *v)
__CPROVER_requires(vg_v64.calls == 0)
__CPROVER_assigns(__CPROVER_object_whole(&vg_v64), *v)
__CPROVER_ensures(vg_v64.calls == 1 && vg_v64.p == p && __CPROVER_return_value == vg_v64.ret && vg_v64.ret >= 1 && vg_v64.ret <= 10 && *v == vg_v64.val)
;
uint32_t mtbl_crc32c__cap(const uint8_t *buf, size_t len)
__CPROVER_requires(vg_crc.calls == 0)
__CPROVER_assigns(__CPROVER_object_whole(&vg_crc))
__CPROVER_ensures(vg_crc.calls == 1 && vg_crc.buf == buf && vg_crc.len == len && __CPROVER_return_value == vg_crc.ret)
;
mtbl_res mtbl_decompress__cap(mtbl_compression_type alg, const uint8_t *in, const size_t n, uint8_t **out, size_t *outn)
__CPROVER_requires(vg_dec.calls == 0)
__CPROVER_assigns(__CPROVER_object_whole(&vg_dec), *out, *outn)
__CPROVER_ensures(vg_dec.calls == 1 && vg_dec.alg == alg && vg_dec.in == in && vg_dec.n == n && *out == vg_dec.out && *outn == vg_dec.outn && __CPROVER_return_value == vg_dec.ret)
;
struct block *block_init__cap(uint8_t *data, size_t size, bool needs_free)
__CPROVER_requires(vg_bi.calls == 0)
__CPROVER_assigns(__CPROVER_object_whole(&vg_bi))
__CPROVER_ensures(vg_bi.calls == 1 && vg_bi.data == data && vg_bi.size == size && vg_bi.needs_free == (unsigned)(needs_free != 0) && __CPROVER_return_value == &vg_block && vg_bi.ret == __CPROVER_return_value)
;
#define VG_V1 (r->m.file_version == MTBL_FORMAT_V1)
#define VG_HDR (VG_V1 ? (size_t)4 : vg_v64.ret)
#define VG_LEN (VG_V1 ? (size_t)vg_f32.r0 : (size_t)vg_v64.val)
#define VG_RAW (r->data + offset + VG_HDR + 4)
struct block *get_block__spec(struct mtbl_reader *r, uint64_t offset)
__CPROVER_requires(__CPROVER_is_fresh(r, sizeof(*r)))
__CPROVER_requires(r->len_data <= ((size_t)1 << 40) && offset < r->len_data && __CPROVER_is_fresh(r->data, r->len_data + 16))
__CPROVER_requires(vg_f32.calls == 0 && vg_v64.calls == 0 && vg_crc.calls == 0 && vg_dec.calls == 0 && vg_bi.calls == 0)
__CPROVER_assigns(__CPROVER_object_whole(&vg_f32), __CPROVER_object_whole(&vg_v64), __CPROVER_object_whole(&vg_crc), __CPROVER_object_whole(&vg_dec), __CPROVER_object_whole(&vg_bi))
/* the length prefix: fixed 32-bit in format v1, varint in v2, read at the block's offset */
__CPROVER_ensures(VG_V1 ==> (vg_v64.calls == 0 && vg_f32.calls >= 1 && vg_f32.p0 == r->data + offset))
__CPROVER_ensures(!VG_V1 ==> (vg_v64.calls == 1 && vg_v64.p == r->data + offset))
/* verify_checksums: the stored checksum field follows the length prefix; the checksum is computed over exactly the stored bytes;
 * a normal return means they were equal */
__CPROVER_ensures(!r->opt.verify_checksums ==> vg_crc.calls == 0)
__CPROVER_ensures(r->opt.verify_checksums ==> (vg_crc.calls == 1 && vg_crc.buf == VG_RAW && vg_crc.len == VG_LEN))
__CPROVER_ensures((r->opt.verify_checksums && VG_V1) ==> (vg_f32.calls == 2 && vg_f32.p1 == r->data + offset + 4 && vg_f32.r1 == vg_crc.ret))
__CPROVER_ensures((r->opt.verify_checksums && !VG_V1) ==> (vg_f32.calls == 1 && vg_f32.p0 == r->data + offset + vg_v64.ret && vg_f32.r0 == vg_crc.ret))
/* what is decoded: the stored bytes themselves, or exactly the decompressor's output for them (algorithm from the trailer) */
__CPROVER_ensures(r->m.compression_algorithm == MTBL_COMPRESSION_NONE ==> (vg_dec.calls == 0 && vg_bi.calls == 1 && vg_bi.data == VG_RAW && vg_bi.size == VG_LEN && vg_bi.needs_free == 0))
__CPROVER_ensures(r->m.compression_algorithm != MTBL_COMPRESSION_NONE ==> (vg_dec.calls == 1 && vg_dec.alg == (mtbl_compression_type)r->m.compression_algorithm && vg_dec.in == VG_RAW && vg_dec.n == VG_LEN
                  && vg_dec.ret == mtbl_res_success && vg_bi.calls == 1 && vg_bi.data == vg_dec.out && vg_bi.size == vg_dec.outn && vg_bi.needs_free == 1))
__CPROVER_ensures(__CPROVER_return_value == vg_bi.ret)
;
void h_get_block_dfcc(void)
{
	struct mtbl_reader *r; uint64_t off;
	struct block *b = get_block(r, off);
	VG_REACH("get_block returns");
}
