/* C10 / C09 / C12 / C18: the block-level half of mtbl/writer.c under DFCC, for blocks, keys and offsets of ANY size:
 *   _mtbl_writer_write_data_block : offsets and statistics advance by exactly what write_block reports, the index entry is
 *                                   (the block's last key -> varint of the block's START offset), both buffers freed once;
 *   _mtbl_writer_compress_block   : compressed once with the configured algorithm / level, checksum over exactly the stored bytes;
 *   _mtbl_writer_finish           : pending block flushed first, result handler joined, index block finished, checksummed over
 *                                   exactly its bytes and written, trailer = statistics with index_block_offset = offset where
 *                                   the index block starts and bytes_index_block = what write_block reported, trailer written last.
 * Callees are replaced by capture contracts (one ghost record per callee). */
#include "mtbl/writer.c"
#include "spec/ghost.h"

size_t vg_k;                                   /* universal index: never assigned */
unsigned vg_seq;
static unsigned vg_len64(uint64_t v) { unsigned n = 1; if (v >= (1ULL << 7)) n = 2; if (v >= (1ULL << 14)) n = 3; if (v >= (1ULL << 21)) n = 4; if (v >= (1ULL << 28)) n = 5; if (v >= (1ULL << 35)) n = 6;
	if (v >= (1ULL << 42)) n = 7; if (v >= (1ULL << 49)) n = 8; if (v >= (1ULL << 56)) n = 9; if (v >= (1ULL << 63)) n = 10; return n; }
static uint8_t vg_byte64(uint64_t v, unsigned n, unsigned k) { return (uint8_t)(((v >> (7 * k)) & 0x7f) | (k + 1 < n ? 0x80 : 0)); }

struct { unsigned calls, seq; int fd; struct data_block *b; size_t ret; const uint8_t *data; size_t len; uint32_t crc; } vg_wb;
struct { unsigned calls, seq; struct block_builder *b; const uint8_t *key; size_t lk, lv; uint8_t val_k; } vg_bba;
struct { unsigned calls; void *p0, *p1; } vg_fr;
struct { unsigned calls, seq; const uint8_t *buf; size_t len; uint32_t ret; } vg_crc;
struct { unsigned calls; unsigned with_level; int level; mtbl_compression_type type; const uint8_t *in; size_t n; uint8_t *out; size_t outn; mtbl_res ret; } vg_cmp;
struct { unsigned calls, seq; struct mtbl_writer *w; } vg_fl;
struct { unsigned calls, seq; } vg_rh;
struct { unsigned calls, seq; struct block_builder *b; uint8_t *data; size_t len; } vg_fin;
struct { unsigned calls, seq; struct mtbl_metadata m; uint8_t *buf; } vg_md;
struct { unsigned calls, seq; int fd; const uint8_t *buf; size_t n; } vg_wa;
struct { unsigned calls, seq; struct block_builder *b; } vg_rst;

size_t _mtbl_writer_write_block__cap(int fd, struct data_block *b)
__CPROVER_requires(vg_wb.calls == 0)
__CPROVER_assigns(__CPROVER_object_whole(&vg_wb), vg_seq)
__CPROVER_ensures(vg_wb.calls == 1 && vg_wb.fd == fd && vg_wb.b == b && __CPROVER_return_value == vg_wb.ret && vg_wb.ret <= ((size_t)1 << 50) && vg_wb.data == b->data && vg_wb.len == b->len_data && vg_wb.crc == b->crc
                  && vg_seq == __CPROVER_old(vg_seq) + 1 && vg_wb.seq == vg_seq)
;
void block_builder_add__cap(struct block_builder *b, const uint8_t *key, size_t lk, const uint8_t *val, size_t lv)
__CPROVER_requires(vg_bba.calls == 0 && lv >= 1 && lv <= 10)
__CPROVER_assigns(__CPROVER_object_whole(&vg_bba), vg_seq)
__CPROVER_ensures(vg_bba.calls == 1 && vg_bba.b == b && vg_bba.key == key && vg_bba.lk == lk && vg_bba.lv == lv && (vg_k < lv ==> vg_bba.val_k == val[vg_k]) && vg_seq == __CPROVER_old(vg_seq) + 1 && vg_bba.seq == vg_seq)
;
void free__cap(void *p)
__CPROVER_requires(vg_fr.calls < 2)
__CPROVER_assigns(__CPROVER_object_whole(&vg_fr))
__CPROVER_ensures(vg_fr.calls == __CPROVER_old(vg_fr.calls) + 1 && vg_fr.p0 == (__CPROVER_old(vg_fr.calls) == 0 ? p : __CPROVER_old(vg_fr.p0)) && vg_fr.p1 == (__CPROVER_old(vg_fr.calls) == 1 ? p : __CPROVER_old(vg_fr.p1)))
;
uint32_t mtbl_crc32c__cap(const uint8_t *buf, size_t len)
__CPROVER_requires(vg_crc.calls == 0)
__CPROVER_assigns(__CPROVER_object_whole(&vg_crc), vg_seq)
__CPROVER_ensures(vg_crc.calls == 1 && vg_crc.buf == buf && vg_crc.len == len && __CPROVER_return_value == vg_crc.ret && vg_seq == __CPROVER_old(vg_seq) + 1 && vg_crc.seq == vg_seq)
;
mtbl_res mtbl_compress__cap(mtbl_compression_type t, const uint8_t *in, const size_t n, uint8_t **out, size_t *outn)
__CPROVER_requires(vg_cmp.calls == 0)
__CPROVER_assigns(__CPROVER_object_whole(&vg_cmp), *out, *outn)
__CPROVER_ensures(vg_cmp.calls == 1 && vg_cmp.with_level == 0 && vg_cmp.type == t && vg_cmp.in == in && vg_cmp.n == n && __CPROVER_return_value == vg_cmp.ret && *out == vg_cmp.out && *outn == vg_cmp.outn)
;
mtbl_res mtbl_compress_level__cap(mtbl_compression_type t, int level, const uint8_t *in, const size_t n, uint8_t **out, size_t *outn)
__CPROVER_requires(vg_cmp.calls == 0)
__CPROVER_assigns(__CPROVER_object_whole(&vg_cmp), *out, *outn)
__CPROVER_ensures(vg_cmp.calls == 1 && vg_cmp.with_level == 1 && vg_cmp.level == level && vg_cmp.type == t && vg_cmp.in == in && vg_cmp.n == n && __CPROVER_return_value == vg_cmp.ret && *out == vg_cmp.out && *outn == vg_cmp.outn)
;
/* ------------------------------------------------------------------ _mtbl_writer_write_data_block */
void _mtbl_writer_write_data_block__spec(struct mtbl_writer *w, struct data_block *b)
__CPROVER_requires(__CPROVER_is_fresh(w, sizeof(*w)) && __CPROVER_is_fresh(b, sizeof(*b)))
__CPROVER_requires(w->pending_offset <= ((uint64_t)1 << 60) && w->m.bytes_data_blocks <= ((uint64_t)1 << 60) && w->m.count_data_blocks <= ((uint64_t)1 << 60))
__CPROVER_requires(vg_wb.calls == 0 && vg_bba.calls == 0 && vg_fr.calls == 0 && vg_seq == 0)
__CPROVER_assigns(w->last_offset, w->pending_offset, w->m.bytes_data_blocks, w->m.count_data_blocks, __CPROVER_object_whole(&vg_wb), __CPROVER_object_whole(&vg_bba), __CPROVER_object_whole(&vg_fr), vg_seq)
__CPROVER_ensures(vg_wb.calls == 1 && vg_wb.fd == w->fd && vg_wb.b == b)
__CPROVER_ensures(w->last_offset == __CPROVER_old(w->pending_offset) && w->pending_offset == __CPROVER_old(w->pending_offset) + vg_wb.ret)
__CPROVER_ensures(w->m.bytes_data_blocks == __CPROVER_old(w->m.bytes_data_blocks) + vg_wb.ret && w->m.count_data_blocks == __CPROVER_old(w->m.count_data_blocks) + 1)
/* index entry: the block's last key (at this point: the separator) -> varint of the offset at which the block STARTS */
__CPROVER_ensures(vg_bba.calls == 1 && vg_bba.b == w->index && vg_bba.key == b->last_key && vg_bba.lk == b->len_last_key && vg_wb.seq < vg_bba.seq)
__CPROVER_ensures(vg_bba.lv == vg_len64(__CPROVER_old(w->pending_offset)))
__CPROVER_ensures(vg_k < vg_bba.lv ==> vg_bba.val_k == vg_byte64(__CPROVER_old(w->pending_offset), vg_len64(__CPROVER_old(w->pending_offset)), (unsigned)vg_k))
/* both buffers of the block copy are released, each once */
__CPROVER_ensures(vg_fr.calls == 2 && ((vg_fr.p0 == (void *)b->last_key && vg_fr.p1 == (void *)b->data) || (vg_fr.p0 == (void *)b->data && vg_fr.p1 == (void *)b->last_key)))
;
void h_write_data_block_dfcc(void)
{
	struct mtbl_writer *w; struct data_block *b;
	_mtbl_writer_write_data_block(w, b);
	VG_REACH("_mtbl_writer_write_data_block returns");
}
/* ------------------------------------------------------------------ _mtbl_writer_compress_block */
void _mtbl_writer_compress_block__spec(struct data_block *b)
__CPROVER_requires(__CPROVER_is_fresh(b, sizeof(*b)))
__CPROVER_requires(vg_cmp.calls == 0 && vg_crc.calls == 0 && vg_fr.calls == 0 && vg_seq == 0 && vg_cmp.ret == mtbl_res_success)
__CPROVER_assigns(b->data, b->len_data, b->crc, __CPROVER_object_whole(&vg_cmp), __CPROVER_object_whole(&vg_crc), __CPROVER_object_whole(&vg_fr), vg_seq)
__CPROVER_ensures(__CPROVER_old(b->comp_type) == MTBL_COMPRESSION_NONE ==> (vg_cmp.calls == 0 && vg_fr.calls == 0 && b->data == __CPROVER_old(b->data) && b->len_data == __CPROVER_old(b->len_data)))
#define VG_COMP (__CPROVER_old(b->comp_type) != MTBL_COMPRESSION_NONE)
__CPROVER_ensures(VG_COMP ==> (vg_cmp.calls == 1 && vg_cmp.type == __CPROVER_old(b->comp_type) && vg_cmp.in == __CPROVER_old(b->data) && vg_cmp.n == __CPROVER_old(b->len_data)))
__CPROVER_ensures(VG_COMP ==> (vg_cmp.with_level == (unsigned)(__CPROVER_old(b->comp_level) != DEFAULT_COMPRESSION_LEVEL)))
__CPROVER_ensures((VG_COMP && vg_cmp.with_level) ==> vg_cmp.level == __CPROVER_old(b->comp_level))
__CPROVER_ensures(VG_COMP ==> (b->data == vg_cmp.out && b->len_data == vg_cmp.outn))
__CPROVER_ensures(VG_COMP ==> (vg_fr.calls == 1 && vg_fr.p0 == (void *)__CPROVER_old(b->data)))
/* the checksum covers exactly the bytes that will be stored */
__CPROVER_ensures(vg_crc.calls == 1 && vg_crc.buf == b->data && vg_crc.len == b->len_data && b->crc == vg_crc.ret)
;
void h_compress_block_dfcc(void)
{
	struct data_block *b;
	_mtbl_writer_compress_block(b);
	VG_REACH("_mtbl_writer_compress_block returns");
}
/* ------------------------------------------------------------------ _mtbl_writer_finish */
void _mtbl_writer_flush__cap(struct mtbl_writer *w)
__CPROVER_requires(vg_fl.calls == 0)
__CPROVER_assigns(__CPROVER_object_whole(&vg_fl), vg_seq, w->pending_offset, w->last_offset, w->m.bytes_data_blocks, w->m.count_data_blocks)
__CPROVER_ensures(vg_fl.calls == 1 && vg_fl.w == w && vg_seq == __CPROVER_old(vg_seq) + 1 && vg_fl.seq == vg_seq && w->pending_offset <= ((uint64_t)1 << 60))
;
void result_handler_destroy__cap(struct result_handler **rh)
__CPROVER_requires(vg_rh.calls == 0)
__CPROVER_assigns(__CPROVER_object_whole(&vg_rh), vg_seq, *rh)
__CPROVER_ensures(vg_rh.calls == 1 && *rh == NULL && vg_seq == __CPROVER_old(vg_seq) + 1 && vg_rh.seq == vg_seq)
;
void block_builder_finish__cap(struct block_builder *b, uint8_t **buf, size_t *bufsz)
__CPROVER_requires(vg_fin.calls == 0)
__CPROVER_assigns(__CPROVER_object_whole(&vg_fin), vg_seq, *buf, *bufsz)
__CPROVER_ensures(vg_fin.calls == 1 && vg_fin.b == b && *buf == vg_fin.data && *bufsz == vg_fin.len && vg_seq == __CPROVER_old(vg_seq) + 1 && vg_fin.seq == vg_seq)
;
void block_builder_reset__cap(struct block_builder *b)
__CPROVER_requires(vg_rst.calls == 0)
__CPROVER_assigns(__CPROVER_object_whole(&vg_rst), vg_seq)
__CPROVER_ensures(vg_rst.calls == 1 && vg_rst.b == b && vg_seq == __CPROVER_old(vg_seq) + 1 && vg_rst.seq == vg_seq)
;
void metadata_write__cap(const struct mtbl_metadata *m, uint8_t *buf)
__CPROVER_requires(vg_md.calls == 0)
__CPROVER_assigns(__CPROVER_object_whole(&vg_md), vg_seq)
__CPROVER_ensures(vg_md.calls == 1 && vg_md.buf == buf && vg_md.m.index_block_offset == m->index_block_offset && vg_md.m.bytes_index_block == m->bytes_index_block && vg_md.m.bytes_data_blocks == m->bytes_data_blocks
                  && vg_md.m.count_data_blocks == m->count_data_blocks && vg_md.m.count_entries == m->count_entries && vg_md.m.bytes_keys == m->bytes_keys && vg_md.m.bytes_values == m->bytes_values
                  && vg_md.m.data_block_size == m->data_block_size && vg_md.m.compression_algorithm == m->compression_algorithm && vg_md.m.file_version == m->file_version
                  && vg_seq == __CPROVER_old(vg_seq) + 1 && vg_md.seq == vg_seq)
;
void _write_all__cap2(int fd, const uint8_t *buf, size_t n)
__CPROVER_requires(vg_wa.calls == 0)
__CPROVER_assigns(__CPROVER_object_whole(&vg_wa), vg_seq)
__CPROVER_ensures(vg_wa.calls == 1 && vg_wa.fd == fd && vg_wa.buf == buf && vg_wa.n == n && vg_seq == __CPROVER_old(vg_seq) + 1 && vg_wa.seq == vg_seq)
;
void _mtbl_writer_finish__spec(struct mtbl_writer *w)
__CPROVER_requires(__CPROVER_is_fresh(w, sizeof(*w)))
__CPROVER_requires(!w->closed)
__CPROVER_requires(vg_fl.calls == 0 && vg_rh.calls == 0 && vg_fin.calls == 0 && vg_crc.calls == 0 && vg_wb.calls == 0 && vg_md.calls == 0 && vg_wa.calls == 0 && vg_rst.calls == 0 && vg_fr.calls == 0 && vg_seq == 0)
__CPROVER_assigns(w->closed, w->rhandler, w->m.index_block_offset, w->m.bytes_index_block, w->last_offset, w->pending_offset, w->m.bytes_data_blocks, w->m.count_data_blocks, vg_seq,
                  __CPROVER_object_whole(&vg_fl), __CPROVER_object_whole(&vg_rh), __CPROVER_object_whole(&vg_fin), __CPROVER_object_whole(&vg_crc), __CPROVER_object_whole(&vg_wb), __CPROVER_object_whole(&vg_md),
                  __CPROVER_object_whole(&vg_wa), __CPROVER_object_whole(&vg_rst), __CPROVER_object_whole(&vg_fr))
/* order: pending data block, join the result handler, finish + checksum + write the index block, trailer last */
__CPROVER_ensures(vg_fl.calls == 1 && vg_fl.w == w && vg_rh.calls == 1 && vg_fin.calls == 1 && vg_fin.b == w->index && vg_crc.calls == 1 && vg_wb.calls == 1 && vg_md.calls == 1 && vg_wa.calls == 1)
__CPROVER_ensures(vg_fl.seq < vg_rh.seq && vg_rh.seq < vg_fin.seq && vg_fin.seq < vg_crc.seq && vg_crc.seq < vg_wb.seq && vg_wb.seq < vg_md.seq && vg_md.seq < vg_wa.seq)
/* the index block carries the checksum of exactly its bytes and is written as it was finished */
__CPROVER_ensures(vg_crc.buf == vg_fin.data && vg_crc.len == vg_fin.len && vg_wb.fd == w->fd && vg_wb.data == vg_fin.data && vg_wb.len == vg_fin.len && vg_wb.crc == vg_crc.ret)
/* trailer: the index block starts where the last data block ended; its size is what write_block reported */
__CPROVER_ensures(vg_md.m.bytes_index_block == vg_wb.ret && w->pending_offset == vg_md.m.index_block_offset + vg_wb.ret && w->last_offset == vg_md.m.index_block_offset)
__CPROVER_ensures(vg_md.m.bytes_data_blocks == w->m.bytes_data_blocks && vg_md.m.count_data_blocks == w->m.count_data_blocks && vg_md.m.count_entries == w->m.count_entries && vg_md.m.bytes_keys == w->m.bytes_keys
                  && vg_md.m.bytes_values == w->m.bytes_values && vg_md.m.data_block_size == w->m.data_block_size && vg_md.m.compression_algorithm == w->m.compression_algorithm && vg_md.m.file_version == w->m.file_version)
__CPROVER_ensures(vg_wa.fd == w->fd && vg_wa.buf == vg_md.buf && vg_wa.n == MTBL_METADATA_SIZE)
__CPROVER_ensures(w->closed && vg_fr.calls == 1 && vg_fr.p0 == (void *)vg_fin.data)
;
void h_finish_dfcc(void)
{
	struct mtbl_writer *w;
	_mtbl_writer_finish(w);
	VG_REACH("_mtbl_writer_finish returns");
}
/* ------------------------------------------------------------------ _mtbl_writer_flush
 * The block under construction is cut exactly when it holds entries: the remembered key is copied (it is the index key of the
 * block), the builder is finished and reset, and the block copy goes either to the pool (ordered delivery, the compress
 * wrapper) or through compress + write_data_block in this thread.  Nothing happens on an empty builder. */
struct { unsigned calls; struct block_builder *b; _Bool ret; } vg_emp;
struct { unsigned calls; size_t n; void *ret; } vg_ma;
struct { unsigned calls; void *dst0, *dst1; const void *src0, *src1; size_t n0, n1; } vg_mc;
struct { unsigned calls; size_t a, b; void *ret; } vg_ca;
struct { unsigned calls, seq; struct threadpool *pool; struct result_handler *rh; unsigned ordered; thread_cb cb; void *arg; } vg_dp;
struct { unsigned calls, seq; mtbl_compression_type type; int level; uint8_t *data; size_t len; } vg_cb;
struct { unsigned calls, seq; struct mtbl_writer *w; uint8_t *data, *last_key; size_t len_last_key; } vg_wdb;
static uint8_t vg_keycopy[8]; static struct data_block vg_blockcopy;

bool block_builder_empty__cap(struct block_builder *b)
__CPROVER_requires(vg_emp.calls == 0)
__CPROVER_assigns(__CPROVER_object_whole(&vg_emp))
__CPROVER_ensures(vg_emp.calls == 1 && vg_emp.b == b && __CPROVER_return_value == vg_emp.ret)
;
void *my_malloc__cap(size_t n)
__CPROVER_requires(vg_ma.calls == 0)
__CPROVER_assigns(__CPROVER_object_whole(&vg_ma))
__CPROVER_ensures(vg_ma.calls == 1 && vg_ma.n == n && __CPROVER_return_value == (void *)vg_keycopy && vg_ma.ret == __CPROVER_return_value)
;
void *my_calloc__cap(size_t a, size_t b)
__CPROVER_requires(vg_ca.calls == 0)
__CPROVER_assigns(__CPROVER_object_whole(&vg_ca))
__CPROVER_ensures(vg_ca.calls == 1 && vg_ca.a == a && vg_ca.b == b && __CPROVER_return_value == (void *)&vg_blockcopy && vg_ca.ret == __CPROVER_return_value)
;
void *memcpy__cap(void *dst, const void *src, size_t n)
__CPROVER_requires(vg_mc.calls < 2)
__CPROVER_assigns(__CPROVER_object_whole(&vg_mc))
__CPROVER_ensures(vg_mc.calls == __CPROVER_old(vg_mc.calls) + 1)
__CPROVER_ensures(vg_mc.dst0 == (__CPROVER_old(vg_mc.calls) == 0 ? dst : __CPROVER_old(vg_mc.dst0)) && vg_mc.src0 == (__CPROVER_old(vg_mc.calls) == 0 ? src : __CPROVER_old(vg_mc.src0)) && vg_mc.n0 == (__CPROVER_old(vg_mc.calls) == 0 ? n : __CPROVER_old(vg_mc.n0)))
__CPROVER_ensures(vg_mc.dst1 == (__CPROVER_old(vg_mc.calls) == 1 ? dst : __CPROVER_old(vg_mc.dst1)) && vg_mc.src1 == (__CPROVER_old(vg_mc.calls) == 1 ? src : __CPROVER_old(vg_mc.src1)) && vg_mc.n1 == (__CPROVER_old(vg_mc.calls) == 1 ? n : __CPROVER_old(vg_mc.n1)))
;
void threadpool_dispatch__cap(struct threadpool *pool, struct result_handler *rh, bool ordered, thread_cb cb, void *arg)
__CPROVER_requires(vg_dp.calls == 0)
__CPROVER_assigns(__CPROVER_object_whole(&vg_dp), vg_seq)
__CPROVER_ensures(vg_dp.calls == 1 && vg_dp.pool == pool && vg_dp.rh == rh && vg_dp.ordered == (unsigned)(ordered != 0) && vg_dp.cb == cb && vg_dp.arg == arg && vg_seq == __CPROVER_old(vg_seq) + 1 && vg_dp.seq == vg_seq)
;
void _mtbl_writer_compress_block__cap(struct data_block *b)
__CPROVER_requires(vg_cb.calls == 0)
__CPROVER_assigns(__CPROVER_object_whole(&vg_cb), vg_seq)
__CPROVER_ensures(vg_cb.calls == 1 && vg_cb.type == b->comp_type && vg_cb.level == b->comp_level && vg_cb.data == b->data && vg_cb.len == b->len_data && vg_seq == __CPROVER_old(vg_seq) + 1 && vg_cb.seq == vg_seq)
;
void _mtbl_writer_write_data_block__cap(struct mtbl_writer *w, struct data_block *b)
__CPROVER_requires(vg_wdb.calls == 0)
__CPROVER_assigns(__CPROVER_object_whole(&vg_wdb), vg_seq)
__CPROVER_ensures(vg_wdb.calls == 1 && vg_wdb.w == w && vg_wdb.data == b->data && vg_wdb.last_key == b->last_key && vg_wdb.len_last_key == b->len_last_key && vg_seq == __CPROVER_old(vg_seq) + 1 && vg_wdb.seq == vg_seq)
;
#define VG_EMPTY (vg_emp.ret != 0)
#define VG_POOLED (w->pool != NULL)
void _mtbl_writer_flush__spec(struct mtbl_writer *w)
__CPROVER_requires(__CPROVER_is_fresh(w, sizeof(*w)) && __CPROVER_is_fresh(w->last_key, sizeof(ubuf)))
__CPROVER_requires(!w->closed && w->m.file_version == MTBL_FORMAT_V2)
__CPROVER_requires(vg_emp.calls == 0 && vg_ma.calls == 0 && vg_mc.calls == 0 && vg_ca.calls == 0 && vg_dp.calls == 0 && vg_cb.calls == 0 && vg_wdb.calls == 0 && vg_fin.calls == 0 && vg_rst.calls == 0 && vg_seq == 0)
__CPROVER_assigns(vg_seq, __CPROVER_object_whole(&vg_emp), __CPROVER_object_whole(&vg_ma), __CPROVER_object_whole(&vg_mc), __CPROVER_object_whole(&vg_ca), __CPROVER_object_whole(&vg_dp), __CPROVER_object_whole(&vg_cb),
                  __CPROVER_object_whole(&vg_wdb), __CPROVER_object_whole(&vg_fin), __CPROVER_object_whole(&vg_rst))
__CPROVER_ensures(vg_emp.calls == 1 && vg_emp.b == w->data)
/* an empty builder: nothing is written, finished, reset or dispatched */
__CPROVER_ensures(VG_EMPTY ==> (vg_fin.calls == 0 && vg_rst.calls == 0 && vg_ma.calls == 0 && vg_mc.calls == 0 && vg_dp.calls == 0 && vg_cb.calls == 0 && vg_wdb.calls == 0))
/* otherwise: copy of the remembered key, then finish and reset of the DATA builder (finish first) */
__CPROVER_ensures(!VG_EMPTY ==> (vg_ma.calls == 1 && vg_ma.n == w->last_key->_n && vg_mc.calls >= 1 && vg_mc.dst0 == vg_ma.ret && vg_mc.src0 == (const void *)w->last_key->_v && vg_mc.n0 == w->last_key->_n))
__CPROVER_ensures(!VG_EMPTY ==> (vg_fin.calls == 1 && vg_fin.b == w->data && vg_rst.calls == 1 && vg_rst.b == w->data && vg_fin.seq < vg_rst.seq))
/* without a pool: compressed with the configured algorithm and level, then written, with the key copy as the block's last key */
__CPROVER_ensures((!VG_EMPTY && !VG_POOLED) ==> (vg_dp.calls == 0 && vg_cb.calls == 1 && vg_wdb.calls == 1 && vg_rst.seq < vg_cb.seq && vg_cb.seq < vg_wdb.seq && vg_cb.type == w->opt.compression_type && vg_cb.level == w->opt.compression_level
                  && vg_cb.data == vg_fin.data && vg_cb.len == vg_fin.len && vg_wdb.w == w && vg_wdb.last_key == (uint8_t *)vg_ma.ret && vg_wdb.len_last_key == w->last_key->_n))
/* with a pool: a heap copy of the block is dispatched with ORDERED delivery to the compress wrapper; nothing is written here */
__CPROVER_ensures((!VG_EMPTY && VG_POOLED) ==> (vg_cb.calls == 0 && vg_wdb.calls == 0 && vg_dp.calls == 1 && vg_dp.pool == w->pool && vg_dp.rh == w->rhandler && vg_dp.ordered == 1 && vg_dp.cb == _compress_block_wrapper
                  && vg_ca.calls == 1 && vg_ca.a * vg_ca.b == sizeof(struct data_block) && vg_dp.arg == vg_ca.ret && vg_mc.calls == 2 && vg_mc.dst1 == vg_ca.ret && vg_mc.n1 == sizeof(struct data_block) && vg_rst.seq < vg_dp.seq))
;
void h_flush_dfcc(void)
{
	struct mtbl_writer *w;
	_mtbl_writer_flush(w);
	VG_REACH("_mtbl_writer_flush returns");
}
