/* C04 (observation path "output file of src/mtbl_merge"): src/mtbl_merge.c merge() (real) under DFCC with a loop contract, for ANY
 * number of merged entries: every entry of the merger's iterator is handed to the output writer exactly once, unchanged, in
 * order; a refusal stops the tool at its assert (never silently skipped); iterator, merger and writer are destroyed. */
#define main mtbl_merge_main
#include "src/mtbl_merge.c"
#undef main
#include "spec/pump.spec.h"
struct { unsigned calls; } vg_ms, vg_si, vg_md, vg_wd;
const struct mtbl_source *mtbl_merger_source__cap(struct mtbl_merger *m) __CPROVER_requires(vg_ms.calls == 0 && m == merger) __CPROVER_assigns(__CPROVER_object_whole(&vg_ms)) __CPROVER_ensures(vg_ms.calls == 1) ;
struct mtbl_iter *mtbl_source_iter__cap(const struct mtbl_source *s) __CPROVER_requires(vg_si.calls == 0) __CPROVER_assigns(__CPROVER_object_whole(&vg_si)) __CPROVER_ensures(vg_si.calls == 1 && __CPROVER_return_value == vg_the_iter) ;
void mtbl_merger_destroy__cap(struct mtbl_merger **m) __CPROVER_requires(vg_md.calls == 0) __CPROVER_assigns(__CPROVER_object_whole(&vg_md), *m) __CPROVER_ensures(vg_md.calls == 1 && *m == NULL) ;
void mtbl_writer_destroy__cap(struct mtbl_writer **w) __CPROVER_requires(vg_wd.calls == 0 && *w == vg_the_writer) __CPROVER_assigns(__CPROVER_object_whole(&vg_wd), *w) __CPROVER_ensures(vg_wd.calls == 1 && *w == NULL) ;
void print_stats__cap(void) __CPROVER_requires(1) __CPROVER_assigns() __CPROVER_ensures(1) ;
void merge__spec(void)
__CPROVER_requires(vg_nx.nexts == 0 && vg_nx.yields == 0 && vg_ad.calls == 0 && vg_de.calls == 0 && vg_ms.calls == 0 && vg_si.calls == 0 && vg_md.calls == 0 && vg_wd.calls == 0 && vg_the_writer == writer && vg_the_iter != NULL && writer != NULL && merger != NULL)
__CPROVER_assigns(count, merger, writer, __CPROVER_object_whole(&vg_nx), __CPROVER_object_whole(&vg_ad), __CPROVER_object_whole(&vg_de), __CPROVER_object_whole(&vg_ms), __CPROVER_object_whole(&vg_si), __CPROVER_object_whole(&vg_md), __CPROVER_object_whole(&vg_wd))
/* a normal return means: the merger ran dry and every entry it yielded was accepted by the writer */
__CPROVER_ensures(vg_ad.calls == vg_nx.yields && (vg_ad.calls == 0 || vg_ad.last == mtbl_res_success) && vg_nx.nexts >= 1 && vg_nx.last != mtbl_res_success)
__CPROVER_ensures(vg_de.calls == 1 && vg_md.calls == 1 && vg_wd.calls == 1)
;
void h_merge_tool_dfcc(void) { merge(); VG_REACH("merge returns"); }
