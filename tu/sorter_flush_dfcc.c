/* C06 / C18: _mtbl_sorter_flush and _mtbl_sorter_get_entry_batch (mtbl/sorter.c, real) under DFCC: the whole buffered batch
 * (the very vector of entries, none left behind) is detached into one batch, the sorter starts a fresh empty buffer with zero
 * accounted bytes, and the batch becomes exactly one chunk: written in this thread and its reader appended to the chunk list
 * (NULL reader = failure), or dispatched once to the pool with the chunk-writing wrapper. */
#include "mtbl/sorter.c"
#include "spec/ghost.h"
struct { unsigned calls; size_t a, b; } vg_ca;
struct { unsigned calls; unsigned hint; entry_vec *ret; } vg_vi;
struct { unsigned calls; struct entry_batch *b; struct mtbl_reader *ret; const struct mtbl_sorter *s_at_call; entry_vec *entries_at_call; } vg_wc;
struct { unsigned calls; reader_vec *v; struct mtbl_reader *r; } vg_ra;
struct { unsigned calls; struct threadpool *pool; struct result_handler *rh; unsigned ordered; thread_cb cb; void *arg; const struct mtbl_sorter *s_at_call; entry_vec *entries_at_call; } vg_dp;
static struct entry_batch vg_batch; static entry_vec vg_newvec;
void *calloc__cap(size_t a, size_t b) __CPROVER_requires(vg_ca.calls == 0) __CPROVER_assigns(__CPROVER_object_whole(&vg_ca), __CPROVER_object_whole(&vg_batch)) __CPROVER_ensures(vg_ca.calls == 1 && vg_ca.a == a && vg_ca.b == b && __CPROVER_return_value == (void *)&vg_batch) ;
entry_vec *entry_vec_init__cap(unsigned hint) __CPROVER_requires(vg_vi.calls == 0) __CPROVER_assigns(__CPROVER_object_whole(&vg_vi), __CPROVER_object_whole(&vg_newvec)) __CPROVER_ensures(vg_vi.calls == 1 && vg_vi.hint == hint && __CPROVER_return_value == &vg_newvec && vg_newvec._n == 0 && vg_vi.ret == &vg_newvec) ;
struct mtbl_reader *_mtbl_sorter_write_chunk__cap(struct entry_batch *b)
__CPROVER_requires(vg_wc.calls == 0)
__CPROVER_assigns(__CPROVER_object_whole(&vg_wc))
__CPROVER_ensures(vg_wc.calls == 1 && vg_wc.b == b && __CPROVER_return_value == vg_wc.ret && vg_wc.s_at_call == b->s && vg_wc.entries_at_call == b->entries)
;
void reader_vec_add__cap(reader_vec *v, struct mtbl_reader *r) __CPROVER_requires(vg_ra.calls == 0) __CPROVER_assigns(__CPROVER_object_whole(&vg_ra)) __CPROVER_ensures(vg_ra.calls == 1 && vg_ra.v == v && vg_ra.r == r) ;
void threadpool_dispatch__cap(struct threadpool *pool, struct result_handler *rh, bool ordered, thread_cb cb, void *arg)
__CPROVER_requires(vg_dp.calls == 0)
__CPROVER_assigns(__CPROVER_object_whole(&vg_dp))
__CPROVER_ensures(vg_dp.calls == 1 && vg_dp.pool == pool && vg_dp.rh == rh && vg_dp.ordered == (unsigned)(ordered != 0) && vg_dp.cb == cb && vg_dp.arg == arg
                  && vg_dp.s_at_call == ((struct entry_batch *)arg)->s && vg_dp.entries_at_call == ((struct entry_batch *)arg)->entries)
;
mtbl_res _mtbl_sorter_flush__spec(struct mtbl_sorter *s)
__CPROVER_requires(__CPROVER_is_fresh(s, sizeof(*s)) && !s->iterating)
__CPROVER_requires(vg_ca.calls == 0 && vg_vi.calls == 0 && vg_wc.calls == 0 && vg_ra.calls == 0 && vg_dp.calls == 0)
__CPROVER_assigns(s->vec, s->entry_bytes, __CPROVER_object_whole(&vg_ca), __CPROVER_object_whole(&vg_vi), __CPROVER_object_whole(&vg_wc), __CPROVER_object_whole(&vg_ra), __CPROVER_object_whole(&vg_dp),
                  __CPROVER_object_whole(&vg_batch), __CPROVER_object_whole(&vg_newvec))
/* the sorter starts over with a fresh, empty buffer and nothing accounted */
__CPROVER_ensures(s->vec == &vg_newvec && vg_newvec._n == 0 && s->entry_bytes == 0 && vg_vi.calls == 1)
/* no pool: exactly the old buffer becomes one chunk, written now; its reader joins the chunk list; a NULL reader is a failure */
__CPROVER_ensures(s->pool == NULL ==> (vg_dp.calls == 0 && vg_wc.calls == 1 && vg_wc.s_at_call == s && vg_wc.entries_at_call == __CPROVER_old(s->vec) && vg_ra.calls == 1 && vg_ra.v == s->readers && vg_ra.r == vg_wc.ret
                  && (__CPROVER_return_value == mtbl_res_success) == (vg_wc.ret != NULL)))
/* pool: exactly the old buffer is dispatched once, to the chunk-writing wrapper, results unordered */
__CPROVER_ensures(s->pool != NULL ==> (vg_wc.calls == 0 && vg_ra.calls == 0 && vg_dp.calls == 1 && vg_dp.pool == s->pool && vg_dp.rh == s->rhandler && vg_dp.cb == _write_temp_file_wrapper
                  && vg_dp.s_at_call == s && vg_dp.entries_at_call == __CPROVER_old(s->vec) && __CPROVER_return_value == mtbl_res_success))
;
void h_sorter_flush_dfcc(void) { struct mtbl_sorter *s; mtbl_res r = _mtbl_sorter_flush(s); VG_REACH("_mtbl_sorter_flush returns"); }
