/* C09: block_builder_reset and block_builder_current_size_estimate (mtbl/block_builder.c, real) under DFCC:
 * reset gives back the EMPTY builder -- no entry bytes, no remembered key, exactly one restart point at offset 0, the count of
 * entries since the last restart point back at zero (so that the restart cadence of the next block starts afresh), not finished;
 * the size estimate is entry bytes + restart array in the width of the regime + 4. */
#include "mtbl/block_builder.c"
#include "spec/ghost.h"
struct { unsigned calls; ubuf *u0, *u1; } vg_ur;
struct { unsigned calls, seq; uint64_vec *v; } vg_vr;
struct { unsigned calls, seq; uint64_vec *v; uint64_t val; } vg_va;
unsigned vg_seq;
void ubuf_reset__cap(ubuf *u)
__CPROVER_requires(vg_ur.calls < 2)
__CPROVER_assigns(__CPROVER_object_whole(&vg_ur), u->_n)
__CPROVER_ensures(u->_n == 0 && vg_ur.calls == __CPROVER_old(vg_ur.calls) + 1 && vg_ur.u0 == (__CPROVER_old(vg_ur.calls) == 0 ? u : __CPROVER_old(vg_ur.u0)) && vg_ur.u1 == (__CPROVER_old(vg_ur.calls) == 1 ? u : __CPROVER_old(vg_ur.u1)))
;
void uint64_vec_reset__cap(uint64_vec *v)
__CPROVER_requires(vg_vr.calls == 0)
__CPROVER_assigns(__CPROVER_object_whole(&vg_vr), v->_n, vg_seq)
__CPROVER_ensures(v->_n == 0 && vg_vr.calls == 1 && vg_vr.v == v && vg_seq == __CPROVER_old(vg_seq) + 1 && vg_vr.seq == vg_seq)
;
void uint64_vec_add__cap(uint64_vec *v, uint64_t x)
__CPROVER_requires(vg_va.calls == 0)
__CPROVER_assigns(__CPROVER_object_whole(&vg_va), v->_n, vg_seq)
__CPROVER_ensures(v->_n == __CPROVER_old(v->_n) + 1 && vg_va.calls == 1 && vg_va.v == v && vg_va.val == x && vg_seq == __CPROVER_old(vg_seq) + 1 && vg_va.seq == vg_seq)
;
void block_builder_reset__spec(struct block_builder *b)
__CPROVER_requires(__CPROVER_is_fresh(b, sizeof(*b)) && __CPROVER_is_fresh(b->buf, sizeof(ubuf)) && __CPROVER_is_fresh(b->last_key, sizeof(ubuf)) && __CPROVER_is_fresh(b->restarts, sizeof(uint64_vec)))
__CPROVER_requires(vg_ur.calls == 0 && vg_vr.calls == 0 && vg_va.calls == 0 && vg_seq == 0)
__CPROVER_assigns(b->counter, b->finished, b->buf->_n, b->last_key->_n, b->restarts->_n, vg_seq, __CPROVER_object_whole(&vg_ur), __CPROVER_object_whole(&vg_vr), __CPROVER_object_whole(&vg_va))
__CPROVER_ensures(b->buf->_n == 0 && b->last_key->_n == 0 && vg_ur.calls == 2 && ((vg_ur.u0 == b->buf && vg_ur.u1 == b->last_key) || (vg_ur.u0 == b->last_key && vg_ur.u1 == b->buf)))
__CPROVER_ensures(b->restarts->_n == 1 && vg_vr.calls == 1 && vg_vr.v == b->restarts && vg_va.calls == 1 && vg_va.v == b->restarts && vg_va.val == 0 && vg_vr.seq < vg_va.seq)
__CPROVER_ensures(b->counter == 0 && !b->finished)
;
void h_bb_reset_dfcc(void) { struct block_builder *b; block_builder_reset(b); VG_REACH("block_builder_reset returns"); }

size_t block_builder_current_size_estimate__spec(struct block_builder *b)
__CPROVER_requires(__CPROVER_is_fresh(b, sizeof(*b)) && __CPROVER_is_fresh(b->buf, sizeof(ubuf)) && __CPROVER_is_fresh(b->restarts, sizeof(uint64_vec)) && b->buf->_n <= ((size_t)1 << 50) && b->restarts->_n <= ((size_t)1 << 40))
__CPROVER_assigns()
__CPROVER_ensures(__CPROVER_return_value == b->buf->_n + b->restarts->_n * (b->buf->_n > UINT32_MAX ? 8 : 4) + 4)
;
void h_bb_estimate_dfcc(void) { struct block_builder *b; size_t r = block_builder_current_size_estimate(b); VG_REACH("block_builder_current_size_estimate returns"); }
