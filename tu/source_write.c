/* C04 (observation path): mtbl_source_write (real source.c) hands every entry of the source's iterator to mtbl_writer_add
 * exactly once, in order, stops at the first refusal and destroys the iterator. */
#include "mtbl/source.c"
#include "spec/ghost.h"
struct mtbl_iter { unsigned pos; }; struct mtbl_writer { int d; };
static unsigned vg_n, vg_adds, vg_refuse_at; static _Bool vg_iter_null; static int vg_iters_live;
static uint8_t vg_k[4], vg_v[4];
struct mtbl_iter *mtbl_iter_init(mtbl_iter_seek_func s, mtbl_iter_next_func n, mtbl_iter_free_func f, void *c) { return NULL; }
void mtbl_iter_destroy(struct mtbl_iter **it) { if (*it) { vg_iters_live--; *it = NULL; } }
mtbl_res mtbl_iter_next(struct mtbl_iter *it, const uint8_t **k, size_t *lk, const uint8_t **v, size_t *lv)
{ if (it->pos >= vg_n) return mtbl_res_failure; *k = &vg_k[it->pos]; *lk = 1; *v = &vg_v[it->pos]; *lv = 1; it->pos++; return mtbl_res_success; }
mtbl_res mtbl_iter_seek(struct mtbl_iter *it, const uint8_t *k, size_t l) { return mtbl_res_success; }
static _Bool vg_order_ok = 1;
mtbl_res mtbl_writer_add(struct mtbl_writer *w, const uint8_t *k, size_t lk, const uint8_t *v, size_t lv)
{
	if (!(k == &vg_k[vg_adds] && v == &vg_v[vg_adds] && lk == 1 && lv == 1)) vg_order_ok = 0;
	if (vg_adds == vg_refuse_at) { vg_adds++; return mtbl_res_failure; }
	vg_adds++; return mtbl_res_success;
}
static struct mtbl_iter vg_it;
static struct mtbl_iter *vg_src_iter(void *clos) { if (vg_iter_null) return NULL; vg_it.pos = 0; vg_iters_live++; return &vg_it; }
static struct mtbl_iter *vg_g(void *c, const uint8_t *k, size_t l) { return NULL; }
static struct mtbl_iter *vg_r(void *c, const uint8_t *k, size_t l, const uint8_t *k1, size_t l1) { return NULL; }
void h_source_write(void)
{
	vg_n = nondet_u32(); __CPROVER_assume(vg_n <= 4); vg_refuse_at = nondet_u32(); vg_iter_null = nondet_bool();
	struct mtbl_source *s = mtbl_source_init(vg_src_iter, vg_g, vg_g, vg_r, NULL, NULL);
	struct mtbl_writer w;
	mtbl_res res = mtbl_source_write(s, &w);
	VG_REACH("mtbl_source_write returns");
	if (vg_iter_null) { VG_P("C04", res == mtbl_res_failure && vg_adds == 0, "a source without iterator writes nothing and reports failure"); return; }
	_Bool refused = vg_refuse_at < vg_n;
	VG_P("C04", vg_order_ok && vg_adds == (refused ? vg_refuse_at + 1 : vg_n), "every entry is handed to the writer exactly once, in order, up to the first refusal");
	VG_P("C04", (res == mtbl_res_success) == !refused, "the result reports whether every entry was accepted");
	VG_P("C18", vg_iters_live == 0, "the iterator is destroyed on every path");
	mtbl_source_destroy(&s);
}
