/* libmy/my_fileset.c (real: my_fileset_reload, setfile_updated, fetch_entry, cmp_fileset_entry, path_exists, my_fileset_get)
 * from an arbitrary fileset state: <= 2 loaded entries, a setfile of <= 3 lines naming one-letter tables in directory "d",
 * each table present or missing on disk.  stat/fopen/getline/fclose/dirname and bsearch/qsort are modelled by their contracts. */
#include <sys/stat.h>
#include "libmy/my_fileset.c"
#include "spec/ghost.h"
#ifndef VG_MYFS_LINES
#define VG_MYFS_LINES 2
#endif
/* string functions by their definitions, for the short names used here (paths are at most 5 characters); fixed-size objects */
size_t strlen(const char *s) { size_t n = 0; while (n < 8 && s[n]) n++; return n; }
int strcmp(const char *a, const char *b) { for (size_t i = 0; i < 8; i++) { unsigned char x = a[i], y = b[i]; if (x != y) return (int)x - (int)y; if (!x) return 0; } return 0; }
char *strdup(const char *s) { char *d = malloc(8); for (size_t i = 0; i < 8; i++) { d[i] = s[i]; if (!s[i]) break; } return d; }
void *memcpy(void *dst, const void *src, size_t n) { for (size_t i = 0; i < n; i++) ((char *)dst)[i] = ((const char *)src)[i]; return dst; }
/* calloc returning TYPED zeroed objects for the three struct types this file allocates (rule R13: objects from the built-in
 * calloc are untyped byte arrays and every pointer loaded from them drags along all pointers ever stored) */
static unsigned vg_calloc40;
void *calloc(size_t a, size_t b)
{
	size_t n = a * b;
	if (n == sizeof(struct fileset_entry)) { struct fileset_entry *e = malloc(sizeof(struct fileset_entry)); e->keep = 0; e->fname = NULL; e->ptr = NULL; return e; }
	if (n == sizeof(entry_vec)) {
		if (vg_calloc40++ == 0) { ubuf *u = malloc(sizeof(ubuf)); u->_v = NULL; u->_p = NULL; u->_n = 0; u->_n_alloced = 0; u->_hint = 0; return u; }      /* my_fileset_reload: ubuf first */
		entry_vec *v = malloc(sizeof(entry_vec)); v->_v = NULL; v->_p = NULL; v->_n = 0; v->_n_alloced = 0; v->_hint = 0; return v;
	}
	VG_A(0, "unexpected calloc size in this harness"); __CPROVER_assume(0); return NULL;
}
/* vector growth: the new set is built in a vector created with room for one entry and doubled on demand.  realloc by its
 * ISO C contract (7.22.3.5: a new object whose contents equal the old one's up to the lesser of the two sizes), written for
 * arrays of pointers (the only objects that grow here: names are short, the 64-byte name buffer never grows); the old size is
 * the size of the object passed in. */
#ifdef VG_MYFS_CUT
/* quick variant: vector growth is a cut point, i.e. paths on which the reload produces two or more entries end here */
void *realloc(void *p, size_t n) { __CPROVER_assume(0); return p; }
#else
void *realloc(void *p, size_t n)
{
	size_t old = __CPROVER_OBJECT_SIZE(p);
	VG_A(n % sizeof(void *) == 0 && n <= 4 * sizeof(void *), "only the entry vector grows in this harness");
	void **q = malloc(n);
	for (size_t i = 0; i < 4; i++) if (i * sizeof(void *) < old && i * sizeof(void *) < n) q[i] = ((void **)p)[i];
	free(p);
	return q;
}
#endif

static _Bool vg_exists[3];              /* d/a, d/b, d/c present on disk */
static _Bool vg_setfile_changed;
static unsigned vg_nlines; static char vg_line_name[3];     /* letters 'a'..'c' */
int stat(const char *path, struct stat *sb)
{
	if (path[0] == 's') {                /* the setfile "s" */
		sb->st_ino = vg_setfile_changed ? 2 : 1; sb->st_mtime = 5;
		return 0;
	}
	VG_P("C07", path[0] == 'd' && path[1] == '/' && path[2] >= 'a' && path[2] <= 'c' && path[3] == 0, "relative setfile lines are resolved against the setfile's directory, newline stripped");
	if (!(path[2] >= 'a' && path[2] <= 'c')) return -1;
	return vg_exists[path[2] - 'a'] ? 0 : -1;
}
static unsigned vg_line_pos; static int vg_open_files;
FILE *fopen(const char *p, const char *m) { vg_open_files++; vg_line_pos = 0; return (FILE *)malloc(1); }
int fclose(FILE *f) { vg_open_files--; return 0; }
ssize_t getline(char **line, size_t *n, FILE *f)
{
	if (vg_line_pos >= vg_nlines) return -1;
	if (*line == NULL) { *line = malloc(4); *n = 4; }
	(*line)[0] = vg_line_name[vg_line_pos++]; (*line)[1] = '\n'; (*line)[2] = 0;
	return 2;
}
char *dirname(char *p) { static char d[2] = "d"; return d; }
void qsort(void *base, size_t n, size_t sz, int (*cmp)(const void *, const void *))
{ void **a = base; for (size_t i = 1; i < 3; i++) if (i < n) for (size_t j = i; j > 0; j--) if (cmp(&a[j - 1], &a[j]) > 0) { void *t = a[j]; a[j] = a[j - 1]; a[j - 1] = t; } }
void *bsearch(const void *key, const void *base, size_t n, size_t sz, int (*cmp)(const void *, const void *))
{ void **a = (void **)base; for (size_t i = 0; i < 3; i++) if (i < n && cmp(key, &a[i]) == 0) return &a[i]; return NULL; }

/* ---------- load / unload callbacks with accounting ---------- */
static unsigned vg_loads[3], vg_unloads[3]; static int vg_tokens[3];
static void *vg_load(struct my_fileset *fs, const char *fname) { vg_loads[fname[2] - 'a']++; return &vg_tokens[fname[2] - 'a']; }
static void vg_unload(struct my_fileset *fs, const char *fname, void *ptr) { VG_P("C07,C18", ptr == &vg_tokens[fname[2] - 'a'], "a table is unloaded with the handle it was loaded with"); vg_unloads[fname[2] - 'a']++; }

static struct fileset_entry *vg_entry(char c) { struct fileset_entry *e = malloc(sizeof(*e)); e->keep = 0; e->fname = malloc(4); e->fname[0] = 'd'; e->fname[1] = '/'; e->fname[2] = c; e->fname[3] = 0; e->ptr = &vg_tokens[c - 'a']; return e; }

void h_myfs_reload_step(void)
{
	struct my_fileset *fs = malloc(sizeof(*fs));
	fs->last_ino = 1; fs->last_mtime = 5; fs->setfile = "s"; fs->setdir = "d"; fs->load = vg_load; fs->unload = vg_unload; fs->user = NULL;
	fs->entries = malloc(sizeof(entry_vec)); fs->entries->_n = 0; fs->entries->_n_alloced = 4; fs->entries->_hint = 4; fs->entries->_v = malloc(4 * sizeof(void *)); fs->entries->_p = fs->entries->_v;
	/* arbitrary loaded set: subset of {a,b,c} of size <= 2, sorted, every keep flag clear (invariant) */
	_Bool in_loaded[3]; unsigned nl = 0;
	for (int i = 0; i < 3; i++) { in_loaded[i] = nondet_bool(); if (in_loaded[i]) nl++; }
	__CPROVER_assume(nl <= 2);
	for (int i = 0; i < 3; i++) if (in_loaded[i]) entry_vec_add(fs->entries, vg_entry((char)('a' + i)));
	for (int i = 0; i < 3; i++) vg_exists[i] = nondet_bool();
	vg_setfile_changed = nondet_bool();
	vg_nlines = nondet_u32(); __CPROVER_assume(vg_nlines <= VG_MYFS_LINES);
	for (int i = 0; i < 3; i++) { vg_line_name[i] = nondet_u8(); __CPROVER_assume(vg_line_name[i] >= 'a' && vg_line_name[i] <= 'c'); }
	if (vg_nlines >= 2) __CPROVER_assume(vg_line_name[0] != vg_line_name[1]);
	if (vg_nlines >= 3) __CPROVER_assume(vg_line_name[0] != vg_line_name[2] && vg_line_name[1] != vg_line_name[2]);      /* distinct names (duplicates in a setfile are outside the property) */

	my_fileset_reload(fs);
	VG_REACH("my_fileset_reload returns");
	_Bool named[3] = {0, 0, 0};
	for (unsigned i = 0; i < 3; i++) if (i < vg_nlines) named[vg_line_name[i] - 'a'] = 1;
	for (int c = 0; c < 3; c++) {
		_Bool want = vg_setfile_changed ? (named[c] && vg_exists[c]) : in_loaded[c];
		_Bool have = 0; const char *fn; void *p;
		for (size_t i = 0; i < 3; i++) if (my_fileset_get(fs, i, &fn, &p) && fn[2] == 'a' + c) { have = 1; VG_P("C07", p == &vg_tokens[c], "a listed table keeps / gets its reader"); }
		VG_P("C07", have == want, "after a reload the set holds exactly the tables named in the setfile that exist on disk (missing files are skipped, also ones that were loaded before)");
		if (vg_setfile_changed) {
			VG_P("C07,C18", vg_loads[c] == ((want && !in_loaded[c]) ? 1u : 0u), "a table is loaded once, only when it is newly named");
			VG_P("C07,C18", vg_unloads[c] == ((in_loaded[c] && !want) ? 1u : 0u), "a table that left the set is unloaded exactly once, whatever reload it was carried over from");
		} else VG_P("C07", vg_loads[c] == 0 && vg_unloads[c] == 0, "an unchanged setfile loads and unloads nothing");
	}
	for (size_t i = 0; i < entry_vec_size(fs->entries); i++) VG_P("C18,C07", entry_vec_value(fs->entries, i)->keep == false, "invariant: no entry of the new set carries a stale keep mark");
	for (size_t i = 1; i < 3; i++) if (i < entry_vec_size(fs->entries)) VG_P("C07", strcmp(entry_vec_value(fs->entries, i - 1)->fname, entry_vec_value(fs->entries, i)->fname) < 0, "invariant: the set stays sorted by name (lookup uses binary search)");
	VG_P("C18", vg_open_files == 0, "the setfile is closed again");
}
